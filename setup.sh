#!/bin/sh
# MANIFEST.setup_cmd: build the framework offline from files on disk only.
set -e
cd "$(dirname "$0")"
export CARGO_NET_OFFLINE=true
[ -f harness/Cargo.lock ] || cp /repo/Cargo.lock harness/Cargo.lock
./check build
