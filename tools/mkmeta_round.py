import json,re,os,glob
info = {
"C02":("`wide_div::div_half`: native fast path + rewritten quotient-digit correction comparing `shortfall >= d` instead of `>`", "128-bit, divisor with more than 64 significant bits, dividend·2^F an exact multiple of it, last non-zero 64-bit quotient digit qd with qd·dl ≥ dh·2^64: quotient 1 ulp small (< 2^-120 of uniform pairs)", "missed by C02 (reported by C01 and C07)", ["C02","C01","C07"], "exact multiples `a = q·b` with multipliers of up to 62 bits that keep the product inside the type, and divisors of more than half the width"),
"C03":("`FloatHelper::is_nan` as a single mask test that requires the quiet bit", "`<=` / `>=` (4 of 14 forms) against an f32/f64 NaN whose quiet bit is clear", "C03", ["C03"], None),
"C04":("unsigned→unsigned `LossyFrom` by a direct shift in the source's width", "`lossy_from` only, U0Fw source into an unsigned F0 destination (25 ordered pairs): shift by the full width", "C04", ["C04"], None),
"C05":("early exit in `to_float_kind` at `exp - (prec-1) >= 127` (should be 128)", "f64 with unbiased exponent exactly 179 and an odd significand into U128F0 / I128F0, wrapping forms: 0 instead of 2^127", "C05", ["C05"], None),
"C06":("`round_ties_to_even` tie test on the low 64 bits only", "128-bit, ≥ 65 fraction bits, fraction ≥ 1/2 but not a tie, low 64 raw bits zero, even floor", "C06", ["C06"], None),
"C07":("`checked_rem_euclid_int`: shortcut when `ans_int as u64 == 0`", "FixedI128, negative remainder, integer part of the answer a non-zero multiple of 2^64, checked form only", "C07", ["C07"], None),
"C08":("`parse_is_short`: exactly 55 significant fraction digits take the 54-digit fast path", "radix 10, 128-bit with ≥ 65 fraction bits, exactly 55 digits whose first 54 are a tie prefix and the 55th above the tie's", "missed", ["C08"], "tie prefixes cut at (or next to) the digit budgets of the fast paths with the last kept digit moved up / down"),
"C09":("`div_tie`: exact-tie test looks at the high limb of the remainder only", "default output of ≥ 28 digits that lies within 2^-62 ulp above the midpoint below an odd value, ≥ 94 fraction bits: prints right, parses back one ulp low (2^-65 of uniform values)", "missed by C09 (reported by C08: tie-prefix literal)", ["C09","C08"], "values whose k-digit decimal sits a hair inside the edge of its own rounding interval (`interval_edge_value`: N·2^(f+1−k) ≡ ∓r mod 5^k solved)"),
"C10":("hand-written `Decode` that descends one level of the codec's depth budget", "`DecodeLimit::decode_with_depth_limit` / `decode_all_with_depth_limit` with no budget left at the value", "missed", ["C10"], "`DecodeAll` and `DecodeLimit` entry points compared with the underlying integer's behaviour on the same bytes (limits 0..2, bare and in a Vec)"),
"C11":("`Wrapping` shift amount masked with `other & (nbits as $Rhs - 1)`", "`i8` amounts on 128-bit types: `128 as i8 - 1` overflows under overflow checks (any value)", "C11", ["C11","C18"], None),
"C12":("`pow`: early `Err` when `r.abs() >= int_nbits`", "intermediate `ln(x)·y` exactly MIN (y solved from the library's own ln), debug: `abs()` panics", "missed", ["C12"], "pow exponents `T / L ∓ ulps` with T the ends of the type and L the library's own `ln x`"),
"C13":("sqrt Newton loop returns early when `next > l` (skipping the final inversion)", "x < 1 whose truncated reciprocal is of the form (k/2)²·2^f ∓ k (e.g. 4/9 as stored, on about half of the fraction widths)", "missed", ["C13"], "(k/2)² ∓ k ulp operands and reciprocal pre-images of the ≥ 1 special classes for sqrt / log2 / ln"),
"C14":("log2 refinement decides each bit before squaring against a 55-bit `SQRT_2`", "≥ 59 fraction bits, an intermediate mantissa within 1.4e-17 below √2 at a step i ≤ F − 60", "C14", ["C14"], None),
"C15":("`pow(x, -1)` as a reciprocal computed in the source type", "S ≠ D with a finer destination, exponent exactly −1, base large relative to the source precision", "C15", ["C15"], None),
"C18":("u128 `carrying_add` with the carry test `rhs >= !self` (should be `>`)", "FixedU128 with ≥ 65 fraction bits, middle column of the two-limb product exactly 2^128 − 1 (2^-128 of uniform pairs; a Diophantine solve)", "missed by C18, C01, C02", ["C18","C01","C02"], "operands solved so that the middle column of the 2×2-limb product is exactly 2^128 − 2, − 1 or 2^128 (`mul_column_boundary`), also as the first step of Wrapping programs"),
}
extra={"C11":" — debug profile (release passes, as the change intends)","C17":" — demonstration built with RUSTFLAGS=--cfg substrate_fixed_verif"}
ver={}
for l in open('/tmp/verify-e.log'):
    m=re.match(r'(C\d\d)-e \| (.*)',l.strip())
    if m: ver[m.group(1)]=[x.strip() for x in m.group(2).split(' | ')]
more=json.load(open('/tmp/info5_more.json')) if os.path.exists('/tmp/info5_more.json') else {}
for k,v in more.items(): info[k]=tuple(v)
rows=[]
for id,(chg,needs,first,now,added) in sorted(info.items()):
    d='seeded/%s-e'%id
    if id not in ver: print('no verify for',id); continue
    demo=os.path.basename(glob.glob(d+'/demo_*.rs')[0])
    meta={"seeded":id+"-e","round":5,"breaks_property":id,"patch":"patch.diff","demonstration":demo,
      "change":chg,"needs_to_manifest":needs,
      "written_by":"sub-agent given the property text with its scope, a scratch worktree of /repo, one-line descriptions of the four earlier attempts, and the assumption that it faces a strong generated-input suite that also solves for carries; asked for a conjunction of conditions or an intermediate quantity nobody thought about; MUTANT.md is its report",
      "confirmed_by_me":{"procedure":"tools/verify_mutant.sh in a fresh worktree of /repo HEAD (patch alone; unit tests; demonstration with and without)"+extra.get(id,""),"results":ver[id]},
      "checks_run":"tools/try_mutant.sh: git -C /repo apply patch.diff; ./check <ID> quick (VERIF_SEED=0); git -C /repo checkout -- .",
      "quick_tier_first_attempt":first,
      "caught_by_quick_tier":now}
    if added: meta["strengthening"]=added
    json.dump(meta,open(d+'/meta.json','w'),indent=1)
    rows.append("| %s-e | %s | %s | %s | %s |" % (id, chg.replace('|','\\|'), needs.replace('|','\\|'), first, (", ".join(now) if now else "—")+((" after: "+added) if added else "")))
open('/tmp/round5_rows.md','w').write("\n".join(rows))
print(len(rows))
