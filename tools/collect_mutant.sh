#!/bin/bash
# tools/collect_mutant.sh <ID> <round-letter>: copy a sub-agent's change out of its scratch worktree /tmp/wt/<ID>-<r>
# into seeded/<ID>-<r>/ (patch.diff, demo, MUTANT.md) and remove the worktree with its build output.
id=$1; r=$2; wt=/tmp/wt/$id-$r; d=/verif/seeded/$id-$r
mkdir -p $d
git -C $wt add -N src 2>/dev/null; git -C $wt diff -- src build.rs Cargo.toml > $d/patch.diff
cp $wt/tests/demo_*.rs $d/ 2>/dev/null
cp $wt/MUTANT.md $d/ 2>/dev/null
ls -la $d
[ -s $d/patch.diff ] && git -C /repo worktree remove --force $wt && echo removed $wt
