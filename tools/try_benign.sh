#!/bin/bash
# tools/try_benign.sh <benign-name> <property...>: apply benign/<name>/patch.diff (a change under which every property
# still holds) to /repo, run the quick checks — every one must exit 0 — and undo.
name=$1; shift
cd /verif
git -C /repo apply /verif/benign/$name/patch.diff || { echo "patch does not apply"; exit 3; }
for p in "$@"; do
  VERIF_SEED=${VERIF_SEED:-0} ./check $p quick > /tmp/ben-$name-$p.log 2>&1; rc=$?
  echo "$name $p exit=$rc $(grep -c '^VIOLATION' /tmp/ben-$name-$p.log) violation lines; $(grep 'case=' /tmp/ben-$name-$p.log | head -1 | cut -c1-260)"
done
git -C /repo checkout -- .; git -C /repo clean -fdq src
git -C /repo status --short | head -3
