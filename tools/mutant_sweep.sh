#!/bin/bash
# tools/mutant_sweep.sh <plan-file>: for a `vp run --with-repo` snapshot. Like benign_sweep.sh, but every line
# "<seeded-name> <property...>" names a seeded change that BREAKS the property: the quick check must exit 1 for it
# (regression of detection after changes to the machinery). Results of such runs are not evidence.
plan=$1
R=${VP_RUN_REPO:?needs vp run --with-repo}
grep -rl "/repo" harness check setup.sh tools --include=Cargo.toml --include=check --include="*.sh" --include="*.toml" | xargs sed -i "s#\"/repo\"#\"$R\"#g"
while read name props; do
  [ -z "$name" ] && continue
  git -C $R apply $PWD/seeded/$name/patch.diff || { echo "$name: patch does not apply"; continue; }
  for p in $props; do
    VERIF_SEED=${VERIF_SEED:-0} ./check $p quick > mut-$name-$p.log 2>&1; rc=$?
    echo "$name $p exit=$rc $(grep -c '^VIOLATION' mut-$name-$p.log) violation lines; $(grep 'case=' mut-$name-$p.log | head -1 | cut -c1-200)"
  done
  git -C $R checkout -- .; git -C $R clean -fdq src
done < $plan
