#!/bin/bash
# tools/benign_sweep.sh <plan-file>: for a `vp run --with-repo` snapshot. Rewrites the harness's /repo paths to
# $VP_RUN_REPO, then for every line "<benign-name> <property...>" applies benign/<name>/patch.diff to that copy, runs
# the quick checks (each must exit 0) and undoes the patch. Results of such runs are not evidence.
plan=$1
R=${VP_RUN_REPO:?needs vp run --with-repo}
grep -rl "/repo" harness check setup.sh tools --include=Cargo.toml --include=check --include="*.sh" --include="*.toml" | xargs sed -i "s#\"/repo\"#\"$R\"#g"
while read name props; do
  [ -z "$name" ] && continue
  git -C $R apply $PWD/benign/$name/patch.diff || { echo "$name: patch does not apply"; continue; }
  for p in $props; do
    VERIF_SEED=${VERIF_SEED:-0} ./check $p quick > ben-$name-$p.log 2>&1; rc=$?
    echo "$name $p exit=$rc $(grep -c '^VIOLATION' ben-$name-$p.log) violation lines; $(grep 'case=' ben-$name-$p.log | head -1 | cut -c1-260)"
  done
  git -C $R checkout -- .; git -C $R clean -fdq src
done < $plan
