#!/bin/bash
# tools/verify_mutant.sh <seeded-name>: confirm in a scratch worktree that the seeded change compiles, keeps the
# 66 unit tests green, and that its demonstration fails with the change and passes without it.
name=$1
d=/verif/seeded/$name
wt=/tmp/vm-$name
rm -rf $wt; git -C /repo worktree prune; git -C /repo worktree add --detach $wt HEAD -q || exit 3
cp /repo/Cargo.lock $wt/
cd $wt
mkdir -p tests; cp $d/demo_*.rs tests/
demo=$(basename $(ls $d/demo_*.rs | head -1) .rs)
git apply $d/patch.diff || { echo "$name: patch does not apply"; exit 3; }
unit=$(cargo test --lib --offline 2>&1 | grep "test result" | head -1)
with=$(cargo test --offline $VM_CARGO_ARGS --test $demo 2>&1 | grep "test result\|error\[" | head -1)
git checkout -- src build.rs 2>/dev/null
without=$(cargo test --offline $VM_CARGO_ARGS --test $demo 2>&1 | grep "test result\|error\[" | head -1)
echo "$name | unit(with): $unit | demo(with): $with | demo(without): $without"
cd /; git -C /repo worktree remove --force $wt
