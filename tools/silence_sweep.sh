#!/bin/bash
# tools/silence_sweep.sh <seed...>: for a `vp run --with-repo` snapshot. Rewrites the harness's /repo paths to $VP_RUN_REPO
# (a snapshot of /repo's HEAD, so mutant trials in /repo's working tree do not disturb it) and runs every quick check
# once per seed on that unchanged tree; each must exit 0 without a VIOLATION line. Results of such runs are not evidence.
R=${VP_RUN_REPO:?needs vp run --with-repo}
grep -rl "/repo" harness check setup.sh tools --include=Cargo.toml --include=check --include="*.sh" --include="*.toml" | xargs sed -i "s#\"/repo\"#\"$R\"#g"
./setup.sh > setup.log 2>&1 || { echo "setup failed"; tail -30 setup.log; exit 2; }
for seed in "$@"; do
  for p in C01 C02 C03 C04 C05 C06 C07 C08 C09 C10 C11 C12 C13 C14 C15 C16 C17 C18; do
    t0=$(date +%s)
    VERIF_SEED=$seed ./check $p quick > sil-$p-$seed.log 2>&1; rc=$?
    echo "seed=$seed $p exit=$rc $(grep -c '^VIOLATION' sil-$p-$seed.log) violation lines $(( $(date +%s) - t0 ))s; $(grep -E 'case=|INCONCLUSIVE|FAILED' sil-$p-$seed.log | head -2 | cut -c1-300)"
  done
done
