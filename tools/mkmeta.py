#!/usr/bin/env python3
"""tools/mkmeta.py <round-letter> <round-number> <verify-log> : writes seeded/<ID>-<letter>/meta.json for every entry of
seeded/rounds-*.json[<letter>] from the verification log of tools/verify_mutant.sh, and prints the DESIGN table rows."""
import json, re, os, glob, sys
letter, rnd, vlog = sys.argv[1], int(sys.argv[2]), sys.argv[3]
info = {}
for f in glob.glob('/verif/seeded/rounds-*.json'):
    info.update(json.load(open(f)).get(letter, {}))
extra = {"C11": " — the panic shows in the debug profile, the wrong value in release", "C17": " — demonstration built with RUSTFLAGS=--cfg substrate_fixed_verif", "C10": " — demonstration built with --features serde"}
for f in glob.glob('/verif/seeded/rounds-*.json'):
    ex = json.load(open(f)).get(letter + "_demo_flags")
    if ex is not None:
        extra = {k: " — demonstration run with " + v for k, v in ex.items()}
ver = {}
for l in open(vlog):
    m = re.match(r'(C\d\d)-%s \| (.*)' % letter, l.strip())
    if m:
        ver[m.group(1)] = [x.strip() for x in m.group(2).split(' | ')]
rows = []
for id, (chg, needs, first, now, added) in sorted(info.items()):
    d = '/verif/seeded/%s-%s' % (id, letter)
    if id not in ver:
        print('no verify for', id); continue
    demo = os.path.basename(glob.glob(d + '/demo_*.rs')[0])
    meta = {"seeded": id + "-" + letter, "round": rnd, "breaks_property": id, "patch": "patch.diff", "demonstration": demo,
            "change": chg, "needs_to_manifest": needs,
            "written_by": "sub-agent given only the property text with its scope, a scratch worktree of /repo, one-line descriptions of the earlier attempts for that property, and the assumption that it faces a strong generated-input suite; asked for a conjunction of conditions, an entry point, feature set or intermediate quantity such a suite could miss; MUTANT.md is its report",
            "confirmed_by_me": {"procedure": "tools/verify_mutant.sh in a fresh worktree of /repo HEAD (patch alone; unit tests; demonstration with and without)" + extra.get(id, ""), "results": ver[id]},
            "checks_run": "tools/try_mutant.sh: git -C /repo apply patch.diff; ./check <ID> quick (VERIF_SEED=0); git -C /repo checkout -- .",
            "quick_tier_first_attempt": first, "caught_by_quick_tier": now}
    if added:
        meta["strengthening"] = added
    json.dump(meta, open(d + '/meta.json', 'w'), indent=1)
    rows.append("| %s-%s | %s | %s | %s | %s |" % (id, letter, chg.replace('|', '\\|'), needs.replace('|', '\\|'), first, (", ".join(now) if now else "—") + ((" after: " + added) if added else "")))
print("\n".join(rows))
