#!/bin/bash
# tools/try_mutant.sh <seeded-name> <property...>: apply seeded/<name>/patch.diff to /repo, run the quick checks, undo.
name=$1; shift
cd /verif
git -C /repo apply /verif/seeded/$name/patch.diff || { echo "patch does not apply"; exit 3; }
for p in "$@"; do
  VERIF_SEED=${VERIF_SEED:-0} ./check $p quick > /tmp/mut-$name-$p.log 2>&1; rc=$?
  echo "$name $p exit=$rc $(grep -c '^VIOLATION' /tmp/mut-$name-$p.log) violation lines; $(grep 'case=' /tmp/mut-$name-$p.log | head -1 | cut -c1-220)"
done
git -C /repo checkout -- .; git -C /repo clean -fdq src
git -C /repo status --short | head -3
