//! conv engine, part p: layout pairs (conversions, comparisons, From, LossyFrom).
#[macro_use]
pub mod pairs;
include!("../../shared/conv_forms.rs");
use pairs::*;

fn run_pair<S: VF + PartialOrd<D>, D: VF + PartialOrd<S>>(st: usize, op: u16, a: u128, b: u128, outs: &mut Outs) {
    let x = S::from_raw(a);
    match op {
        CONV_FF => {
            to_num_forms::<S, D>(st, 0, x, |d| d.raw(), outs);
            from_num_forms::<D, S>(st, 5, x, outs);
        }
        _ => cmp_forms(st, 0, x, D::from_raw(b), outs),
    }
}

fn run_from<S: VF + Into<D>, D: VF + From<S>>(st: usize, a: u128, outs: &mut Outs) {
    let x = S::from_raw(a);
    step!(st, outs, 0, "from", Out::V(D::from(x).raw()));
    step!(st, outs, 1, "into", {
        let d: D = x.into();
        Out::V(d.raw())
    });
}

fn run_lossy<S: VF + LossyInto<D>, D: VF + LossyFrom<S>>(st: usize, a: u128, outs: &mut Outs) {
    let x = S::from_raw(a);
    step!(st, outs, 0, "lossy_from", Out::V(D::lossy_from(x).raw()));
    step!(st, outs, 1, "lossy_into", {
        let d: D = x.lossy_into();
        Out::V(d.raw())
    });
}


pub fn run(st: usize, op: u16, lay2: u16, a: u128, b: u128, outs: &mut Outs) {
    match op {
        CONV_FF | CMP_FF => with_pair!(lay2 as usize, S, D => run_pair::<S, D>(st, op, a, b, outs)),
        FROM_FF => with_from_pair!(lay2 as usize, S, D => run_from::<S, D>(st, a, outs)),
        _ => with_lossy_pair!(lay2 as usize, S, D => run_lossy::<S, D>(st, a, outs)),
    }
}

pub fn pair_of(op: u16, lay2: u16) -> (u16, u16) {
    match op {
        FROM_FF => FROM_PAIRS[lay2 as usize],
        LOSSY_FF => LOSSY_PAIRS[lay2 as usize],
        _ => PAIRS[lay2 as usize],
    }
}
