//! conv engine, part p: layout pairs (conversions, comparisons, From, LossyFrom).
#[macro_use]
pub mod pairs;
include!("../../shared/conv_forms.rs");
use pairs::*;

fn run_pair<S: VF + PartialOrd<D> + lay::AzAll<D>, D: VF + PartialOrd<S>>(st: usize, op: u16, a: u128, b: u128, outs: &mut Outs) {
    let x = S::from_raw(a);
    match op {
        CONV_FF => {
            to_num_forms::<S, D>(st, 0, x, |d| d.raw(), outs);
            from_num_forms::<D, S>(st, 6, x, outs);
            lay::az_forms::<S, D>(st, 12, lay::AZ_TO, x, |d| d.raw(), outs);
        }
        _ => cmp_forms(st, 0, x, D::from_raw(b), outs),
    }
}

fn run_from<S: VF + Into<D>, D: VF + From<S>>(st: usize, a: u128, outs: &mut Outs) {
    let x = S::from_raw(a);
    step!(st, outs, 0, "from", Out::V(D::from(x).raw()));
    step!(st, outs, 1, "into", {
        let d: D = x.into();
        Out::V(d.raw())
    });
}

fn run_lossy<S: VF + LossyInto<D>, D: VF + LossyFrom<S>>(st: usize, a: u128, outs: &mut Outs) {
    let x = S::from_raw(a);
    step!(st, outs, 0, "lossy_from", Out::V(D::lossy_from(x).raw()));
    step!(st, outs, 1, "lossy_into", {
        let d: D = x.lossy_into();
        Out::V(d.raw())
    });
}


fn run_from_int<T: IntRaw, D: VF + From<T> + LossyFrom<T>>(st: usize, b: u128, outs: &mut Outs)
where
    T: Into<D>,
{
    let t = T::from_raw(b);
    step!(st, outs, 0, "from", Out::V(D::from(t).raw()));
    step!(st, outs, 1, "into", {
        let d: D = t.into();
        Out::V(d.raw())
    });
    step!(st, outs, 2, "lossy_from", Out::V(D::lossy_from(t).raw()));
}
fn run_int_from_fix<S: VF, T: IntRaw + From<S>>(st: usize, a: u128, outs: &mut Outs) {
    step!(st, outs, 0, "from", Out::V(T::from(S::from_raw(a)).raw()));
}
fn run_int_lossy_fix<S: VF, T: IntRaw + LossyFrom<S>>(st: usize, a: u128, outs: &mut Outs) {
    step!(st, outs, 0, "lossy_from", Out::V(T::lossy_from(S::from_raw(a)).raw()));
}
fn run_from_bool<D: VF + From<bool> + LossyFrom<bool>>(st: usize, b: u128, outs: &mut Outs) {
    step!(st, outs, 0, "from", Out::V(D::from(b & 1 == 1).raw()));
    step!(st, outs, 1, "lossy_from", Out::V(D::lossy_from(b & 1 == 1).raw()));
}
trait FloatBits {
    fn fbits(self) -> u128;
}
impl FloatBits for f32 {
    fn fbits(self) -> u128 {
        self.to_bits() as u128
    }
}
impl FloatBits for f64 {
    fn fbits(self) -> u128 {
        self.to_bits() as u128
    }
}
fn run_float_from_fix<S: VF, T: FloatBits + From<S> + LossyFrom<S>>(st: usize, a: u128, outs: &mut Outs) {
    step!(st, outs, 0, "from", Out::V(T::from(S::from_raw(a)).fbits()));
    step!(st, outs, 1, "lossy_from", Out::V(T::lossy_from(S::from_raw(a)).fbits()));
}

pub fn run(st: usize, op: u16, lay2: u16, a: u128, b: u128, outs: &mut Outs) {
    match op {
        FROM_INT => with_int_from!(lay2 as usize, T, D => run_from_int::<T, D>(st, b, outs)),
        INT_FROM_FIX => with_fix_to_int_from!(lay2 as usize, S, T => run_int_from_fix::<S, T>(st, a, outs)),
        INT_LOSSY_FIX => with_fix_to_int_lossy!(lay2 as usize, S, T => run_int_lossy_fix::<S, T>(st, a, outs)),
        FROM_BOOL => with_bool_from!(lay2 as usize, D => run_from_bool::<D>(st, b, outs)),
        FLOAT_FROM_FIX => with_float_from!(lay2 as usize, S, T => run_float_from_fix::<S, T>(st, a, outs)),
        CONV_FF | CMP_FF => with_pair!(lay2 as usize, S, D => run_pair::<S, D>(st, op, a, b, outs)),
        FROM_FF => with_from_pair!(lay2 as usize, S, D => run_from::<S, D>(st, a, outs)),
        _ => with_lossy_pair!(lay2 as usize, S, D => run_lossy::<S, D>(st, a, outs)),
    }
}

pub fn pair_of(op: u16, lay2: u16) -> (u16, u16) {
    match op {
        FROM_FF => FROM_PAIRS[lay2 as usize],
        LOSSY_FF => LOSSY_PAIRS[lay2 as usize],
        _ => PAIRS[lay2 as usize],
    }
}
