//! Glue between the generic oracles (vcore) and the concrete types of the
//! library under test: the `VF` helper trait (raw-bit access, by-reference
//! operator forms) and `with_layout!` dispatch over all 506 layouts.

pub mod dispatch;

use substrate_fixed::traits::Fixed;
use substrate_fixed::types::extra::{LeEqU128, LeEqU16, LeEqU32, LeEqU64, LeEqU8};
use substrate_fixed::{
    FixedI128, FixedI16, FixedI32, FixedI64, FixedI8, FixedU128, FixedU16, FixedU32, FixedU64, FixedU8,
};
pub use vcore::L;

/// (debug_assertions, overflow_checks) of the crate this is inlined into.
#[inline(always)]
pub fn is_chk() -> bool {
    cfg!(debug_assertions)
}

pub trait VF: Fixed + 'static {
    const LAY: L;
    /// from a zero-extended raw pattern (truncating)
    fn from_raw(r: u128) -> Self;
    /// zero-extended raw pattern
    fn raw(self) -> u128;
    fn bits_from_raw(r: u128) -> Self::Bits;
    fn bits_raw(b: Self::Bits) -> u128;
    /// by-reference / assign forms of the binary operators; `form`: 0 `&a op &b`, 1 `&a op b`, 2 `a op &b`,
    /// 3 `a op= b`, 4 `a op= &b`. `op`: 0 + 1 - 2 * 3 / 4 % 5 & 6 | 7 ^
    fn ref_op(a: Self, b: Self, op: u8, form: u8) -> Self;
    /// same for the integer right-hand side: op 2 * 3 / 4 %
    fn ref_op_int(a: Self, b: Self::Bits, op: u8, form: u8) -> Self;
    /// unary by-reference forms: 0 `-&a` (signed only, else returns a), 1 `!&a`
    fn ref_un(a: Self, op: u8) -> Self;
}

macro_rules! refops {
    ($a:ident, $b:ident, $form:ident, $op:tt, $opa:tt) => {
        match $form {
            0 => &$a $op &$b,
            1 => &$a $op $b,
            2 => $a $op &$b,
            3 => { let mut x = $a; x $opa $b; x }
            _ => { let mut x = $a; x $opa &$b; x }
        }
    };
}

macro_rules! impl_vf {
    ($Fx:ident, $Bits:ty, $UBits:ty, $LeEq:ident, $signed:expr, $w:expr, $neg:expr) => {
        impl<Frac: $LeEq + 'static> VF for $Fx<Frac> {
            const LAY: L = L { signed: $signed, w: $w, f: Frac::U32 };
            #[inline]
            fn from_raw(r: u128) -> Self {
                Self::from_bits(r as $Bits)
            }
            #[inline]
            fn raw(self) -> u128 {
                self.to_bits() as $UBits as u128
            }
            #[inline]
            fn bits_from_raw(r: u128) -> $Bits {
                r as $Bits
            }
            #[inline]
            fn bits_raw(b: $Bits) -> u128 {
                b as $UBits as u128
            }
            fn ref_op(a: Self, b: Self, op: u8, form: u8) -> Self {
                match op {
                    0 => refops!(a, b, form, +, +=),
                    1 => refops!(a, b, form, -, -=),
                    2 => refops!(a, b, form, *, *=),
                    3 => refops!(a, b, form, /, /=),
                    4 => refops!(a, b, form, %, %=),
                    5 => refops!(a, b, form, &, &=),
                    6 => refops!(a, b, form, |, |=),
                    _ => refops!(a, b, form, ^, ^=),
                }
            }
            fn ref_op_int(a: Self, b: $Bits, op: u8, form: u8) -> Self {
                match op {
                    2 => refops!(a, b, form, *, *=),
                    3 => refops!(a, b, form, /, /=),
                    _ => refops!(a, b, form, %, %=),
                }
            }
            fn ref_un(a: Self, op: u8) -> Self {
                let f: fn(Self, u8) -> Self = $neg;
                f(a, op)
            }
        }
    };
}

impl_vf!(FixedI8, i8, u8, LeEqU8, true, 8, |a, op| if op == 0 { -&a } else { !&a });
impl_vf!(FixedI16, i16, u16, LeEqU16, true, 16, |a, op| if op == 0 { -&a } else { !&a });
impl_vf!(FixedI32, i32, u32, LeEqU32, true, 32, |a, op| if op == 0 { -&a } else { !&a });
impl_vf!(FixedI64, i64, u64, LeEqU64, true, 64, |a, op| if op == 0 { -&a } else { !&a });
impl_vf!(FixedI128, i128, u128, LeEqU128, true, 128, |a, op| if op == 0 { -&a } else { !&a });
impl_vf!(FixedU8, u8, u8, LeEqU8, false, 8, |a, op| if op == 0 { a } else { !&a });
impl_vf!(FixedU16, u16, u16, LeEqU16, false, 16, |a, op| if op == 0 { a } else { !&a });
impl_vf!(FixedU32, u32, u32, LeEqU32, false, 32, |a, op| if op == 0 { a } else { !&a });
impl_vf!(FixedU64, u64, u64, LeEqU64, false, 64, |a, op| if op == 0 { a } else { !&a });
impl_vf!(FixedU128, u128, u128, LeEqU128, false, 128, |a, op| if op == 0 { a } else { !&a });
