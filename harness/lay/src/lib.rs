//! Glue between the generic oracles (vcore) and the concrete types of the
//! library under test: the `VF` helper trait (raw-bit access, by-reference
//! operator forms) and `with_layout!` dispatch over all 506 layouts.

pub mod dispatch;

use substrate_fixed::traits::{Fixed, FromFixed, ToFixed};
use vcore::out::Outs;
use vcore::Out;
use substrate_fixed::types::extra::{LeEqU128, LeEqU16, LeEqU32, LeEqU64, LeEqU8};
use substrate_fixed::Wrapping;
use substrate_fixed::{
    FixedI128, FixedI16, FixedI32, FixedI64, FixedI8, FixedU128, FixedU16, FixedU32, FixedU64, FixedU8,
};
pub use vcore::L;

/// (debug_assertions, overflow_checks) of the crate this is inlined into.
#[inline(always)]
pub fn is_chk() -> bool {
    cfg!(debug_assertions)
}

/// whether this crate (a workspace member that follows the build profile, like the library under test) was compiled
/// with integer-overflow checks: probed, because `cfg(overflow_checks)` is not a stable cfg
pub fn is_oc() -> bool {
    #[inline(never)]
    fn probe(x: u8) -> u8 {
        x + 1
    }
    let prev = std::panic::take_hook();
    std::panic::set_hook(Box::new(|_| {}));
    let r = std::panic::catch_unwind(|| probe(std::hint::black_box(255u8)));
    std::panic::set_hook(prev);
    r.is_err()
}

pub trait VF: Fixed + 'static {
    const LAY: L;
    /// from a zero-extended raw pattern (truncating)
    fn from_raw(r: u128) -> Self;
    /// zero-extended raw pattern
    fn raw(self) -> u128;
    fn bits_from_raw(r: u128) -> Self::Bits;
    fn bits_raw(b: Self::Bits) -> u128;
    /// by-reference / assign forms of the binary operators; `form`: 0 `&a op &b`, 1 `&a op b`, 2 `a op &b`,
    /// 3 `a op= b`, 4 `a op= &b`. `op`: 0 + 1 - 2 * 3 / 4 % 5 & 6 | 7 ^
    fn ref_op(a: Self, b: Self, op: u8, form: u8) -> Self;
    /// same for the integer right-hand side: op 2 * 3 / 4 %
    fn ref_op_int(a: Self, b: Self::Bits, op: u8, form: u8) -> Self;
    /// unary by-reference forms: 0 `-&a` (signed only, else returns a), 1 `!&a`
    fn ref_un(a: Self, op: u8) -> Self;
    /// all six operators and partial_cmp, in both operand orders, against a primitive integer
    /// (kind index into vcore::INTS, raw bits `t`)
    fn cmp_int(st: usize, a: Self, kind: usize, t: u128, outs: &mut Outs);
    fn cmp_f32(st: usize, a: Self, t: f32, outs: &mut Outs);
    fn cmp_f64(st: usize, a: Self, t: f64, outs: &mut Outs);
    /// `half::f16` / `half::bf16` given by their bit patterns (optional feature `f16` of the library)
    fn cmp_f16(st: usize, a: Self, bits: u16, outs: &mut Outs);
    fn cmp_bf16(st: usize, a: Self, bits: u16, outs: &mut Outs);
    fn lossy_f32(a: Self) -> f32;
    fn lossy_f64(a: Self) -> f64;
    /// the five `az` cast traits (library feature `az`) between Self and a primitive: steps base..base+5; no outputs when the
    /// harness is built without the feature
    fn az_to_int(st: usize, base: usize, a: Self, kind: usize, outs: &mut Outs);
    fn az_from_int(st: usize, base: usize, kind: usize, t: u128, outs: &mut Outs);
    fn az_from_bool(st: usize, base: usize, t: bool, outs: &mut Outs);
    fn az_to_f32(st: usize, base: usize, a: Self, outs: &mut Outs);
    fn az_to_f64(st: usize, base: usize, a: Self, outs: &mut Outs);
    fn az_from_f32(st: usize, base: usize, t: f32, outs: &mut Outs);
    fn az_from_f64(st: usize, base: usize, t: f64, outs: &mut Outs);
    /// Wrapping<F> binary operators; op 0 + 1 - 2 * 3 / 4 % 5 & 6 | 7 ^; form 0 `a op b`, 1 `&a op &b`,
    /// 2 `&a op b`, 3 `a op &b`, 4 `a op= b`, 5 `a op= &b`
    fn w_bin(a: Wrapping<Self>, b: Wrapping<Self>, op: u8, form: u8) -> Wrapping<Self>;
    /// Wrapping<F> op integer of the underlying type; op 2 * 3 / 4 %
    fn w_int(a: Wrapping<Self>, n: Self::Bits, op: u8, form: u8) -> Wrapping<Self>;
    /// Wrapping<F> shifted by an integer of kind `kind` (vcore::INTS order) with raw bits `amt`
    fn w_shift(a: Wrapping<Self>, kind: usize, amt: u128, right: bool, form: u8) -> Wrapping<Self>;
    /// unary: op 0 `-a` 1 `!a`; by reference when `byref`
    fn w_un(a: Wrapping<Self>, op: u8, byref: bool) -> Wrapping<Self>;
    /// `Sum` / `Product` of F (by value or by reference iterator)
    fn f_sum(items: &[Self], byref: bool) -> Self;
    fn f_product(items: &[Self], byref: bool) -> Self;
    /// F itself shifted by an integer of kind `kind` (operators `<<`, `>>` and their by-ref / assign forms)
    fn f_shift(a: Self, kind: usize, amt: u128, right: bool, form: u8) -> Self;
    /// byte views: which 0 le, 1 be, 2 ne
    fn to_bytes(a: Self, which: u8) -> Vec<u8>;
    /// `bytes` must have exactly width/8 elements
    fn from_bytes(bytes: &[u8], which: u8) -> Self;
}

/// "all five az cast traits from Self to T" as one bound; every type satisfies it when the harness is built without `az`
#[cfg(feature = "az")]
#[allow(deprecated)]
pub trait AzAll<T>: Copy + az::Cast<T> + az::CheckedCast<T> + az::SaturatingCast<T> + az::WrappingCast<T> + az::OverflowingCast<T> + az::StaticCast<T> {}
#[cfg(feature = "az")]
#[allow(deprecated)]
impl<S, T> AzAll<T> for S where S: Copy + az::Cast<T> + az::CheckedCast<T> + az::SaturatingCast<T> + az::WrappingCast<T> + az::OverflowingCast<T> + az::StaticCast<T> {}
#[cfg(not(feature = "az"))]
pub trait AzAll<T>: Copy {}
#[cfg(not(feature = "az"))]
impl<S: Copy, T> AzAll<T> for S {}

/// `az::cast(s)` family, labels `<fam>:plain|checked|saturating|wrapping|overflowing|static` (steps base..base+6)
#[cfg(feature = "az")]
#[inline(always)]
#[allow(deprecated)]
pub fn az_forms<S: AzAll<T>, T>(st: usize, base: usize, fam: [&'static str; 6], s: S, raw: fn(T) -> u128, outs: &mut Outs) {
    vcore::step!(st, outs, base, fam[0], Out::V(raw(az::cast::<S, T>(s))));
    vcore::step!(st, outs, base + 1, fam[1], Out::O(az::checked_cast::<S, T>(s).map(raw)));
    vcore::step!(st, outs, base + 2, fam[2], Out::V(raw(az::saturating_cast::<S, T>(s))));
    vcore::step!(st, outs, base + 3, fam[3], Out::V(raw(az::wrapping_cast::<S, T>(s))));
    vcore::step!(st, outs, base + 4, fam[4], {
        let (v, o) = az::overflowing_cast::<S, T>(s);
        Out::F(raw(v), o)
    });
    vcore::step!(st, outs, base + 5, fam[5], Out::O(az::StaticCast::<T>::static_cast(s).map(raw)));
}
#[cfg(not(feature = "az"))]
#[inline(always)]
pub fn az_forms<S: AzAll<T>, T>(_st: usize, _base: usize, _fam: [&'static str; 6], _s: S, _raw: fn(T) -> u128, _outs: &mut Outs) {}
pub const AZ_TO: [&str; 6] = ["az_to:plain", "az_to:checked", "az_to:saturating", "az_to:wrapping", "az_to:overflowing", "az_to:static"];
pub const AZ_FROM: [&str; 6] = ["az_from:plain", "az_from:checked", "az_from:saturating", "az_from:wrapping", "az_from:overflowing", "az_from:static"];

pub fn ord_out(o: Option<core::cmp::Ordering>) -> Out {
    Out::O(o.map(|x| match x {
        core::cmp::Ordering::Less => 0,
        core::cmp::Ordering::Equal => 1,
        core::cmp::Ordering::Greater => 2,
    }))
}

/// the 14 comparison outputs of `$a` (left) against `$t` (right) as `step!`s 0..14
#[macro_export]
macro_rules! cmp14 {
    ($st:ident, $outs:ident, $a:expr, $t:expr) => {{
        let a = $a;
        let t = $t;
        vcore::step!($st, $outs, 0, "eq", vcore::Out::B(a == t));
        vcore::step!($st, $outs, 1, "ne", vcore::Out::B(a != t));
        vcore::step!($st, $outs, 2, "lt", vcore::Out::B(a < t));
        vcore::step!($st, $outs, 3, "le", vcore::Out::B(a <= t));
        vcore::step!($st, $outs, 4, "gt", vcore::Out::B(a > t));
        vcore::step!($st, $outs, 5, "ge", vcore::Out::B(a >= t));
        vcore::step!($st, $outs, 6, "partial_cmp", $crate::ord_out(a.partial_cmp(&t)));
        vcore::step!($st, $outs, 7, "r_eq", vcore::Out::B(t == a));
        vcore::step!($st, $outs, 8, "r_ne", vcore::Out::B(t != a));
        vcore::step!($st, $outs, 9, "r_lt", vcore::Out::B(t < a));
        vcore::step!($st, $outs, 10, "r_le", vcore::Out::B(t <= a));
        vcore::step!($st, $outs, 11, "r_gt", vcore::Out::B(t > a));
        vcore::step!($st, $outs, 12, "r_ge", vcore::Out::B(t >= a));
        vcore::step!($st, $outs, 13, "r_partial_cmp", $crate::ord_out(t.partial_cmp(&a)));
    }};
}

/// primitive integers as conversion partners
pub trait IntRaw: Copy + ToFixed + FromFixed + 'static {
    fn from_raw(r: u128) -> Self;
    fn raw(self) -> u128;
}
macro_rules! int_raw {
    ($($T:ty, $U:ty);*) => { $(
        impl IntRaw for $T {
            #[inline]
            fn from_raw(r: u128) -> Self { r as $T }
            #[inline]
            fn raw(self) -> u128 { self as $U as u128 }
        }
    )* };
}
int_raw! { i8, u8; i16, u16; i32, u32; i64, u64; i128, u128; isize, usize; u8, u8; u16, u16; u32, u32; u64, u64; u128, u128; usize, usize }

/// dispatch an integer kind index (order of vcore::INTS) to its type
#[macro_export]
macro_rules! with_int {
    ($k:expr, $T:ident => $e:expr) => {
        match $k {
            0 => { type $T = i8; $e }
            1 => { type $T = i16; $e }
            2 => { type $T = i32; $e }
            3 => { type $T = i64; $e }
            4 => { type $T = i128; $e }
            5 => { type $T = isize; $e }
            6 => { type $T = u8; $e }
            7 => { type $T = u16; $e }
            8 => { type $T = u32; $e }
            9 => { type $T = u64; $e }
            10 => { type $T = u128; $e }
            11 => { type $T = usize; $e }
            _ => panic!("int kind out of range"),
        }
    };
}

macro_rules! refops {
    ($a:ident, $b:ident, $form:ident, $op:tt, $opa:tt) => {
        match $form {
            0 => &$a $op &$b,
            1 => &$a $op $b,
            2 => $a $op &$b,
            3 => { let mut x = $a; x $opa $b; x }
            _ => { let mut x = $a; x $opa &$b; x }
        }
    };
}

macro_rules! wforms {
    ($a:ident, $b:ident, $form:ident, $op:tt, $opa:tt) => {
        match $form {
            0 => $a $op $b,
            1 => &$a $op &$b,
            2 => &$a $op $b,
            3 => $a $op &$b,
            4 => { let mut x = $a; x $opa $b; x }
            _ => { let mut x = $a; x $opa &$b; x }
        }
    };
}

macro_rules! impl_vf {
    ($Fx:ident, $Bits:ty, $UBits:ty, $LeEq:ident, $signed:expr, $w:expr, $neg:expr) => {
        impl<Frac: $LeEq + 'static> VF for $Fx<Frac> {
            const LAY: L = L { signed: $signed, w: $w, f: Frac::U32 };
            #[inline]
            fn from_raw(r: u128) -> Self {
                Self::from_bits(r as $Bits)
            }
            #[inline]
            fn raw(self) -> u128 {
                self.to_bits() as $UBits as u128
            }
            #[inline]
            fn bits_from_raw(r: u128) -> $Bits {
                r as $Bits
            }
            #[inline]
            fn bits_raw(b: $Bits) -> u128 {
                b as $UBits as u128
            }
            fn ref_op(a: Self, b: Self, op: u8, form: u8) -> Self {
                match op {
                    0 => refops!(a, b, form, +, +=),
                    1 => refops!(a, b, form, -, -=),
                    2 => refops!(a, b, form, *, *=),
                    3 => refops!(a, b, form, /, /=),
                    4 => refops!(a, b, form, %, %=),
                    5 => refops!(a, b, form, &, &=),
                    6 => refops!(a, b, form, |, |=),
                    _ => refops!(a, b, form, ^, ^=),
                }
            }
            fn ref_op_int(a: Self, b: $Bits, op: u8, form: u8) -> Self {
                match op {
                    2 => refops!(a, b, form, *, *=),
                    3 => refops!(a, b, form, /, /=),
                    _ => refops!(a, b, form, %, %=),
                }
            }
            fn ref_un(a: Self, op: u8) -> Self {
                let f: fn(Self, u8) -> Self = $neg;
                f(a, op)
            }
            fn cmp_int(st: usize, a: Self, kind: usize, t: u128, outs: &mut Outs) {
                $crate::with_int!(kind, T => { let t = <T as IntRaw>::from_raw(t); $crate::cmp14!(st, outs, a, t) });
            }
            fn cmp_f32(st: usize, a: Self, t: f32, outs: &mut Outs) {
                $crate::cmp14!(st, outs, a, t);
            }
            fn cmp_f64(st: usize, a: Self, t: f64, outs: &mut Outs) {
                $crate::cmp14!(st, outs, a, t);
            }
            #[cfg(feature = "f16")]
            fn cmp_f16(st: usize, a: Self, bits: u16, outs: &mut Outs) {
                let t = half::f16::from_bits(bits);
                $crate::cmp14!(st, outs, a, t);
            }
            #[cfg(feature = "f16")]
            fn cmp_bf16(st: usize, a: Self, bits: u16, outs: &mut Outs) {
                let t = half::bf16::from_bits(bits);
                $crate::cmp14!(st, outs, a, t);
            }
            // built without the library's f16 feature: no outputs, the case is counted as skipped
            #[cfg(not(feature = "f16"))]
            fn cmp_f16(_st: usize, _a: Self, _bits: u16, _outs: &mut Outs) {}
            #[cfg(not(feature = "f16"))]
            fn cmp_bf16(_st: usize, _a: Self, _bits: u16, _outs: &mut Outs) {}
            fn lossy_f32(a: Self) -> f32 {
                <f32 as substrate_fixed::traits::LossyFrom<Self>>::lossy_from(a)
            }
            fn lossy_f64(a: Self) -> f64 {
                <f64 as substrate_fixed::traits::LossyFrom<Self>>::lossy_from(a)
            }
            fn az_to_int(st: usize, base: usize, a: Self, kind: usize, outs: &mut Outs) {
                $crate::with_int!(kind, T => $crate::az_forms::<Self, T>(st, base, $crate::AZ_TO, a, |t| <T as IntRaw>::raw(t), outs));
            }
            fn az_from_int(st: usize, base: usize, kind: usize, t: u128, outs: &mut Outs) {
                $crate::with_int!(kind, T => $crate::az_forms::<T, Self>(st, base, $crate::AZ_FROM, <T as IntRaw>::from_raw(t), |x| x.raw(), outs));
            }
            fn az_from_bool(st: usize, base: usize, t: bool, outs: &mut Outs) {
                $crate::az_forms::<bool, Self>(st, base, $crate::AZ_FROM, t, |x| x.raw(), outs);
            }
            fn az_to_f32(st: usize, base: usize, a: Self, outs: &mut Outs) {
                $crate::az_forms::<Self, f32>(st, base, $crate::AZ_TO, a, |t| t.to_bits() as u128, outs);
            }
            fn az_to_f64(st: usize, base: usize, a: Self, outs: &mut Outs) {
                $crate::az_forms::<Self, f64>(st, base, $crate::AZ_TO, a, |t| t.to_bits() as u128, outs);
            }
            fn az_from_f32(st: usize, base: usize, t: f32, outs: &mut Outs) {
                $crate::az_forms::<f32, Self>(st, base, $crate::AZ_FROM, t, |x| x.raw(), outs);
            }
            fn az_from_f64(st: usize, base: usize, t: f64, outs: &mut Outs) {
                $crate::az_forms::<f64, Self>(st, base, $crate::AZ_FROM, t, |x| x.raw(), outs);
            }
            fn w_bin(a: Wrapping<Self>, b: Wrapping<Self>, op: u8, form: u8) -> Wrapping<Self> {
                match op {
                    0 => wforms!(a, b, form, +, +=),
                    1 => wforms!(a, b, form, -, -=),
                    2 => wforms!(a, b, form, *, *=),
                    3 => wforms!(a, b, form, /, /=),
                    4 => wforms!(a, b, form, %, %=),
                    5 => wforms!(a, b, form, &, &=),
                    6 => wforms!(a, b, form, |, |=),
                    _ => wforms!(a, b, form, ^, ^=),
                }
            }
            fn w_int(a: Wrapping<Self>, n: $Bits, op: u8, form: u8) -> Wrapping<Self> {
                match op {
                    2 => wforms!(a, n, form, *, *=),
                    3 => wforms!(a, n, form, /, /=),
                    _ => wforms!(a, n, form, %, %=),
                }
            }
            fn w_shift(a: Wrapping<Self>, kind: usize, amt: u128, right: bool, form: u8) -> Wrapping<Self> {
                $crate::with_int!(kind, T => {
                    let n = <T as IntRaw>::from_raw(amt);
                    if right { wforms!(a, n, form, >>, >>=) } else { wforms!(a, n, form, <<, <<=) }
                })
            }
            fn f_sum(items: &[Self], byref: bool) -> Self {
                if byref { items.iter().sum() } else { items.iter().cloned().sum() }
            }
            fn f_product(items: &[Self], byref: bool) -> Self {
                if byref { items.iter().product() } else { items.iter().cloned().product() }
            }
            fn f_shift(a: Self, kind: usize, amt: u128, right: bool, form: u8) -> Self {
                $crate::with_int!(kind, T => {
                    let n = <T as IntRaw>::from_raw(amt);
                    if right { wforms!(a, n, form, >>, >>=) } else { wforms!(a, n, form, <<, <<=) }
                })
            }
            fn w_un(a: Wrapping<Self>, op: u8, byref: bool) -> Wrapping<Self> {
                match (op, byref) {
                    (0, false) => -a,
                    (0, true) => -&a,
                    (_, false) => !a,
                    (_, true) => !&a,
                }
            }
            fn to_bytes(a: Self, which: u8) -> Vec<u8> {
                match which {
                    0 => a.to_le_bytes().to_vec(),
                    1 => a.to_be_bytes().to_vec(),
                    _ => a.to_ne_bytes().to_vec(),
                }
            }
            fn from_bytes(bytes: &[u8], which: u8) -> Self {
                let mut arr = [0u8; $w / 8];
                arr.copy_from_slice(bytes);
                match which {
                    0 => Self::from_le_bytes(arr),
                    1 => Self::from_be_bytes(arr),
                    _ => Self::from_ne_bytes(arr),
                }
            }
        }
    };
}

impl_vf!(FixedI8, i8, u8, LeEqU8, true, 8, |a, op| if op == 0 { -&a } else { !&a });
impl_vf!(FixedI16, i16, u16, LeEqU16, true, 16, |a, op| if op == 0 { -&a } else { !&a });
impl_vf!(FixedI32, i32, u32, LeEqU32, true, 32, |a, op| if op == 0 { -&a } else { !&a });
impl_vf!(FixedI64, i64, u64, LeEqU64, true, 64, |a, op| if op == 0 { -&a } else { !&a });
impl_vf!(FixedI128, i128, u128, LeEqU128, true, 128, |a, op| if op == 0 { -&a } else { !&a });
impl_vf!(FixedU8, u8, u8, LeEqU8, false, 8, |a, op| if op == 0 { a } else { !&a });
impl_vf!(FixedU16, u16, u16, LeEqU16, false, 16, |a, op| if op == 0 { a } else { !&a });
impl_vf!(FixedU32, u32, u32, LeEqU32, false, 32, |a, op| if op == 0 { a } else { !&a });
impl_vf!(FixedU64, u64, u64, LeEqU64, false, 64, |a, op| if op == 0 { a } else { !&a });
impl_vf!(FixedU128, u128, u128, LeEqU128, false, 128, |a, op| if op == 0 { a } else { !&a });
