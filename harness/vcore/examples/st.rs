fn main(){ println!("{:?}", vcore::selftest()); }
