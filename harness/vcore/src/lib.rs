pub mod big;
pub mod layout;
pub mod out;
pub mod run;
pub mod gen;
pub mod flt;
pub mod fmt_table;
pub mod fmtspec;
pub mod mp;
pub mod lit;
pub mod pair;

pub use big::Big;
pub use layout::{IntK, INTS, L, NLAY};
pub use out::{cu, Case, Eval, Exp, Fail, Out};
pub use run::{Budget, Engine, Kf, Tier};

/// Oracle self-tests, run at the start of every check.
pub fn selftest() -> Result<u64, String> {
    Ok(big::selftest()? + layout::selftest()? + flt::selftest()? + fmtspec::selftest()? + mp::selftest()?)
}
