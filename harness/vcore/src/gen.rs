//! Generators. Every random choice is drawn by proptest (`Ing` = class index +
//! two random words); `pattern` maps the ingredients deterministically to an
//! operand bit pattern for a given layout, so shrinking and replay work.

use crate::big::Big;
use crate::layout::{L, NLAY};
use proptest::prelude::*;

/// ingredients of one operand
pub type Ing = (usize, u128, u128);

/// class table with repeats = weights; index 0 is the simplest class (shrink target)
const CLASS_TABLE: [usize; 16] = [0, 0, 0, 1, 1, 1, 2, 2, 2, 3, 3, 4, 5, 5, 6, 7];
pub const CLASS_NAMES: [&str; 8] = ["uniform", "small", "boundary", "bit±1", "limbs", "int±tiny", "near-bound", "small-int"];

pub fn pick(n: usize) -> impl Strategy<Value = usize> {
    (0u32..=0xffff).prop_map(move |i| ((i as u64 * n as u64) >> 16) as usize)
}

pub fn ing() -> impl Strategy<Value = Ing> {
    (pick(CLASS_TABLE.len()), any::<u128>(), any::<u128>()).prop_map(|(c, a, b)| (CLASS_TABLE[c], a, b))
}

/// layout index with extra weight on corner layouts (frac in {0,1,w/2-1,w/2,w/2+1,w-2,w-1,w}),
/// every layout has non-zero mass
pub fn layout_idx() -> impl Strategy<Value = u16> {
    (pick(3), pick(NLAY), pick(10), pick(8)).prop_map(|(mode, uni, fam, corner)| {
        if mode < 2 {
            uni as u16
        } else {
            let w = [8u32, 16, 32, 64, 128][fam % 5];
            let f = [0, 1, w / 2 - 1, w / 2, w / 2 + 1, w - 2, w - 1, w][corner];
            L { signed: fam < 5, w, f }.idx() as u16
        }
    })
}

pub fn layout_or(stratum: Option<u16>) -> BoxedStrategy<u16> {
    match stratum {
        Some(s) => Just(s).boxed(),
        None => layout_idx().boxed(),
    }
}

fn boundary(l: L, k: usize) -> u128 {
    let m = l.mask();
    let f = l.f;
    let one = if f < 128 { (1u128 << f) & m } else { 0 };
    let half = if f >= 1 { 1u128 << (f - 1) } else { 0 };
    let t: [u128; 20] = [
        0,
        1,
        m, // -1 ulp / unsigned max
        l.raw_min(),
        l.raw_min().wrapping_add(1),
        l.raw_max(),
        l.raw_max().wrapping_sub(1),
        one,
        one.wrapping_add(1),
        one.wrapping_sub(1),
        one.wrapping_neg(),
        half,
        half.wrapping_add(1),
        half.wrapping_sub(1),
        half.wrapping_neg(),
        one.wrapping_mul(2),
        one.wrapping_mul(2).wrapping_neg(),
        one.wrapping_add(half),
        2,
        m - 1, // -2 ulp
    ];
    t[k % t.len()] & m
}

pub fn pattern(l: L, ing: Ing) -> u128 {
    let (cls, r1, r2) = ing;
    let m = l.mask();
    let w = l.w;
    let f = l.f;
    let v = match cls {
        0 => r1,
        1 => {
            let sh = (r2 % w as u128) as u32;
            let v = (r1 & m) >> sh;
            if l.signed && (r2 >> 64) & 1 == 1 {
                v.wrapping_neg()
            } else {
                v
            }
        }
        2 => boundary(l, (r1 % 20) as usize),
        3 => {
            let k = (r1 % w as u128) as u32;
            let base = 1u128 << k;
            let d = [0u128, 1, u128::MAX][(r2 % 3) as usize];
            let v = base.wrapping_add(d);
            if (r2 >> 8) & 1 == 1 {
                v.wrapping_neg()
            } else {
                v
            }
        }
        4 => {
            // limb patterns: 32-bit limbs (half the width below 64 bits), or 64-bit limbs for the 128-bit types
            let lb = if w == 128 && (r2 >> 100) & 1 == 1 { 64 } else if w >= 64 { 32 } else { w / 2 };
            let mut v = 0u128;
            let mut i = 0;
            let mut sel = r2;
            let mut below = 0u128;
            while i * lb < w {
                let limb_mask = (1u128 << lb) - 1;
                let h = r1.rotate_left(29 * i + 7) ^ r2.rotate_left(11 * i);
                let limb = match sel & 7 {
                    0 => 0,
                    1 => limb_mask,
                    2 => 1u128 << (lb - 1),
                    // related to the limb below: equal, complement, or its low k bits with one bit flipped under a
                    // sign-like fill (fields of two limbs that collide or cancel)
                    4 if i > 0 => below,
                    5 if i > 0 => !below & limb_mask,
                    6 if i > 0 => {
                        let k = 1 + (h % lb as u128) as u32;
                        let keep = if k >= lb { limb_mask } else { (1u128 << k) - 1 };
                        let j = ((h >> 8) % k as u128) as u32;
                        let low = (below ^ (1u128 << j)) & keep;
                        if (h >> 16) & 1 == 1 {
                            low | (limb_mask & !keep)
                        } else {
                            low
                        }
                    }
                    _ => (r1 >> (i * lb % 128)) & limb_mask,
                };
                v |= limb << (i * lb);
                below = limb;
                sel >>= 3;
                i += 1;
            }
            v
        }
        5 => {
            if f == 0 {
                r1
            } else {
                let frac_mask = if f == 128 { u128::MAX } else { (1u128 << f) - 1 };
                let half = 1u128 << (f - 1);
                let ip = if (r2 >> 32) & 1 == 1 {
                    // small integer part
                    let n = ((r2 >> 40) % 9) as u128;
                    let n = if (r2 >> 33) & 1 == 1 { n.wrapping_neg() } else { n };
                    if f == 128 {
                        0
                    } else {
                        n << f
                    }
                } else {
                    r1 & !frac_mask
                };
                let t = [0u128, 1, half, half.wrapping_add(1), half.wrapping_sub(1), frac_mask, frac_mask.wrapping_sub(1), half >> 1];
                ip | (t[(r2 % 8) as usize] & frac_mask)
            }
        }
        6 => {
            let small = r1 % (1 + (r2 >> 8) % 300);
            if r2 & 1 == 1 {
                l.raw_max().wrapping_sub(small)
            } else {
                l.raw_min().wrapping_add(small)
            }
        }
        _ => {
            let n = (r1 % 33) as i128 - 16;
            let d = (r2 % 5) as i128 - 2;
            let base = if f >= 127 { 0 } else { n << f };
            (base.wrapping_add(d)) as u128
        }
    };
    v & m
}

pub fn operand_class_name(ing: &Ing) -> &'static str {
    CLASS_NAMES[ing.0]
}

/// integer-valued Big near x/y for dependent operands; y != 0
pub fn big_div_round(x: &Big, y: &Big) -> Big {
    x.div_trunc(y)
}
