//! Multi-precision real functions for the math oracles: log2, ln, exp on
//! fixed-point numbers with P = 320 fractional bits built on `Big`.
//!
//! Error budget: every `mul`/`div` floors, so each operation is off by < 1 unit
//! (2^-320) of its result; series are summed until the terms vanish, at most
//! ~130 terms; argument reduction and `exp`'s final squarings multiply the
//! accumulated error by at most 2^10. The total is < 2^-300 relative to results
//! of magnitude >= 2^-10 — more than 2^-170 below any tolerance used by a check.

use crate::big::Big;
use std::sync::OnceLock;

pub const P: u32 = 320;

/// A real number r represented as floor(r * 2^P)
pub type Mp = Big;

pub fn from_ratio(num: &Big, den: &Big) -> Mp {
    num.shl(P).div_floor(den)
}
/// value a / 2^f
pub fn from_scaled(a: &Big, f: u32) -> Mp {
    if f <= P {
        a.shl(P - f)
    } else {
        a.shr_floor(f - P)
    }
}
pub fn from_i64(v: i64) -> Mp {
    Big::from_i64(v).shl(P)
}
pub fn mul(a: &Mp, b: &Mp) -> Mp {
    a.mul(b).shr_floor(P)
}
pub fn div(a: &Mp, b: &Mp) -> Mp {
    a.shl(P).div_floor(b)
}
pub fn one() -> Mp {
    Big::pow2(P)
}

fn atanh_series(t: &Mp) -> Mp {
    // atanh t = sum t^(2j+1) / (2j+1), |t| <= 1/3
    let t2 = mul(t, t);
    let mut pw = t.clone();
    let mut sum = t.clone();
    let mut j = 1u32;
    loop {
        pw = mul(&pw, &t2);
        if pw.is_zero() || pw.abs().bits() < 4 {
            break;
        }
        let term = pw.divrem_small(2 * j + 1).0;
        sum = sum.add(&term);
        j += 1;
        if j > 400 {
            break;
        }
    }
    sum
}

pub fn ln2() -> &'static Mp {
    static C: OnceLock<Mp> = OnceLock::new();
    C.get_or_init(|| {
        // ln 2 = 2 atanh(1/3)
        let third = from_ratio(&Big::from_u64(1), &Big::from_u64(3));
        atanh_series(&third).shl(1)
    })
}

/// ln of a positive rational given as (m, e): x = m * 2^e with m a positive integer
pub fn ln_of(m: &Big, e: i64) -> Mp {
    assert!(m.is_pos());
    // normalise x = y * 2^k with y in [1, 2)
    let nb = m.bits() as i64;
    let k = nb - 1 + e;
    // y = m / 2^(nb-1)
    let mut y = from_scaled(m, (nb - 1) as u32);
    let mut k = k;
    // move y into [sqrt(1/2), sqrt(2)) so that |t| <= 0.172
    let sqrt2 = from_ratio(&Big::from_u64(1_414_213_562), &Big::from_u64(1_000_000_000));
    if y > sqrt2 {
        y = y.shr_floor(1);
        k += 1;
    }
    let o = one();
    let t = div(&y.sub(&o), &y.add(&o));
    let ln_y = atanh_series(&t).shl(1);
    ln_y.add(&ln2().mul(&Big::from_i64(k)))
}

pub fn log2_of(m: &Big, e: i64) -> Mp {
    div(&ln_of(m, e), ln2())
}

/// e^x for x given as an Mp; returns (mantissa as Mp in [1/2, 4), binary exponent k): e^x = mant * 2^k
pub fn exp_parts(x: &Mp) -> (Mp, i64) {
    // x = k ln2 + rho
    let k_big = div(x, ln2()).add(&Big::pow2(P - 1)).shr_floor(P); // round(x / ln2)
    let k = k_big.to_i128().expect("exp argument too large") as i64;
    let rho = x.sub(&ln2().mul(&k_big));
    // e^rho via Taylor on rho / 2^8, then 8 squarings
    let r = rho.shr_floor(8);
    let mut term = one();
    let mut sum = one();
    let mut i = 1u32;
    loop {
        term = mul(&term, &r).divrem_small(i).0;
        // divrem_small truncates toward zero for negative values: at most 1 unit, within budget
        if term.is_zero() {
            break;
        }
        sum = sum.add(&term);
        i += 1;
        if i > 200 {
            break;
        }
    }
    for _ in 0..8 {
        sum = mul(&sum, &sum);
    }
    (sum, k)
}

/// e^x as an Mp (only when the result fits comfortably: |k| < 2000)
pub fn exp(x: &Mp) -> Mp {
    // far below the resolution: e^x < 2^-P for x < -P ln 2; callers never ask for e^x with x > 2^20
    if *x < from_i64(-(1 << 20)) {
        return Big::zero();
    }
    assert!(*x < from_i64(1 << 20), "mp::exp argument too large");
    let (m, k) = exp_parts(x);
    if k >= 0 {
        m.shl(k as u32)
    } else {
        m.shr_floor((-k) as u32)
    }
}

/// approximate conversion for reporting
pub fn to_f64(x: &Mp) -> f64 {
    let b = x.bits() as i64;
    if b == 0 {
        return 0.0;
    }
    let keep = 60.min(b);
    let top = x.abs().shr_trunc((b - keep) as u32).to_u128().unwrap() as f64;
    let v = top * 2f64.powi((b - keep - P as i64) as i32);
    if x.is_neg() {
        -v
    } else {
        v
    }
}

/// |a - b| <= tol ?
pub fn within(a: &Mp, b: &Mp, tol: &Mp) -> bool {
    a.sub(b).abs() <= *tol
}

fn dec_const(s: &str) -> Mp {
    // "d.ddddd" -> Mp
    let (ip, fp) = s.split_once('.').unwrap();
    let mut all = ip.as_bytes().to_vec();
    all.extend_from_slice(fp.as_bytes());
    from_ratio(&Big::from_digits(&all, 10), &Big::from_u64(10).pow(fp.len() as u32))
}

pub fn selftest() -> Result<u64, String> {
    let tol = Big::pow2(P - 190); // embedded constants have 60 digits ~ 2^-199
    let ln2_ref = dec_const("0.693147180559945309417232121458176568075500134360255254120680");
    if !within(ln2(), &ln2_ref, &tol) {
        return Err("mp selftest: ln 2".into());
    }
    let ln10 = ln_of(&Big::from_u64(10), 0);
    let ln10_ref = dec_const("2.302585092994045684017991454684364207601101488628772976033328");
    if !within(&ln10, &ln10_ref, &tol) {
        return Err("mp selftest: ln 10".into());
    }
    let e = exp(&one());
    let e_ref = dec_const("2.718281828459045235360287471352662497757247093699959574966968");
    if !within(&e, &e_ref, &tol) {
        return Err("mp selftest: e".into());
    }
    let l2_10 = log2_of(&Big::from_u64(10), 0);
    let l2_10_ref = dec_const("3.321928094887362347870319429489390175864831393024580612054756");
    if !within(&l2_10, &l2_10_ref, &tol) {
        return Err("mp selftest: log2 10".into());
    }
    let em = exp(&from_i64(-3).add(&from_ratio(&Big::from_u64(1), &Big::from_u64(4))));
    let em_ref = dec_const("0.063927861206707572702430025557951749308634095078768448218190");
    if !within(&em, &em_ref, &tol) {
        return Err(format!("mp selftest: exp(-2.75) {}", to_f64(&em)));
    }
    // identities at full precision
    let tight = Big::pow2(P - 290);
    let mut n = 5;
    for (m, e2) in [(3u64, 0i64), (7, -3), (1_000_003, -40), (5, 17), (123_456_789, -10), (1, -100), (99, 90)] {
        let x = Big::from_u64(m);
        // log2(2^k * m) = k + log2 m
        let a = log2_of(&x, e2);
        let b = log2_of(&x, 0).add(&from_i64(e2));
        if !within(&a, &b, &tight) {
            return Err("mp selftest: log2 shift identity".into());
        }
        // exp(ln x) = x (relative)
        let l = ln_of(&x, e2);
        let back = exp(&l);
        let xv = if e2 >= 0 { from_i64(1).mul(&x).shl(e2 as u32) } else { x.shl(P).shr_floor((-e2) as u32) };
        let rel = Big::pow2(P - 280).mul(&xv).shr_floor(P).add_i64(4);
        if !within(&back, &xv, &rel) {
            return Err(format!("mp selftest: exp(ln x) = x for {}*2^{}: {} vs {}", m, e2, to_f64(&back), to_f64(&xv)));
        }
        // ln(x^2) = 2 ln x
        let l2 = ln_of(&x.mul(&x), 2 * e2);
        if !within(&l2, &l.shl(1), &tight) {
            return Err("mp selftest: ln square identity".into());
        }
        n += 3;
    }
    // against the host libm (coarse, catches gross mistakes)
    for i in 1..200u64 {
        let x = i as f64 * 0.37 + 0.01;
        let m = Big::from_u64((x * 1048576.0) as u64);
        let xx = (x * 1048576.0) as u64 as f64 / 1048576.0;
        let got = to_f64(&ln_of(&m, -20));
        if (got - xx.ln()).abs() > 1e-12 * (1.0 + xx.ln().abs()) {
            return Err(format!("mp selftest: ln({}) = {} vs libm {}", xx, got, xx.ln()));
        }
        let arg = from_scaled(&Big::from_i64(((x - 30.0) * 1048576.0) as i64), 20);
        let xx = ((x - 30.0) * 1048576.0) as i64 as f64 / 1048576.0;
        let got = to_f64(&exp(&arg));
        if (got - xx.exp()).abs() > 1e-12 * xx.exp() {
            return Err(format!("mp selftest: exp({}) = {} vs libm {}", xx, got, xx.exp()));
        }
        n += 2;
    }
    Ok(n)
}
