//! Arbitrary-precision signed integers for the oracles. Deliberately simple
//! (sign + magnitude, u32 limbs, schoolbook multiply, Knuth D division) and
//! independent of the library under test. Self-tested in `selftest()`.

use std::cmp::Ordering;
use std::fmt;

#[derive(Clone, PartialEq, Eq, Hash, Default)]
pub struct Big {
    neg: bool,
    mag: Vec<u32>, // little endian, no trailing zero limbs; zero => neg == false
}

fn trim(v: &mut Vec<u32>) {
    while let Some(&0) = v.last() {
        v.pop();
    }
}

fn cmp_mag(a: &[u32], b: &[u32]) -> Ordering {
    if a.len() != b.len() {
        return a.len().cmp(&b.len());
    }
    for i in (0..a.len()).rev() {
        if a[i] != b[i] {
            return a[i].cmp(&b[i]);
        }
    }
    Ordering::Equal
}

fn add_mag(a: &[u32], b: &[u32]) -> Vec<u32> {
    let (a, b) = if a.len() >= b.len() { (a, b) } else { (b, a) };
    let mut r = Vec::with_capacity(a.len() + 1);
    let mut carry = 0u64;
    for i in 0..a.len() {
        let s = a[i] as u64 + if i < b.len() { b[i] as u64 } else { 0 } + carry;
        r.push(s as u32);
        carry = s >> 32;
    }
    if carry != 0 {
        r.push(carry as u32);
    }
    r
}

// a >= b required
fn sub_mag(a: &[u32], b: &[u32]) -> Vec<u32> {
    let mut r = Vec::with_capacity(a.len());
    let mut borrow = 0i64;
    for i in 0..a.len() {
        let mut d = a[i] as i64 - borrow - if i < b.len() { b[i] as i64 } else { 0 };
        if d < 0 {
            d += 1 << 32;
            borrow = 1;
        } else {
            borrow = 0;
        }
        r.push(d as u32);
    }
    debug_assert!(borrow == 0);
    trim(&mut r);
    r
}

fn mul_mag(a: &[u32], b: &[u32]) -> Vec<u32> {
    if a.is_empty() || b.is_empty() {
        return Vec::new();
    }
    let mut r = vec![0u32; a.len() + b.len()];
    for i in 0..a.len() {
        let mut carry = 0u64;
        let ai = a[i] as u64;
        if ai == 0 {
            continue;
        }
        for j in 0..b.len() {
            let t = ai * b[j] as u64 + r[i + j] as u64 + carry;
            r[i + j] = t as u32;
            carry = t >> 32;
        }
        let mut k = i + b.len();
        while carry != 0 {
            let t = r[k] as u64 + carry;
            r[k] = t as u32;
            carry = t >> 32;
            k += 1;
        }
    }
    trim(&mut r);
    r
}

fn shl_mag(a: &[u32], n: u32) -> Vec<u32> {
    if a.is_empty() {
        return Vec::new();
    }
    let limbs = (n / 32) as usize;
    let bits = n % 32;
    let mut r = vec![0u32; limbs];
    if bits == 0 {
        r.extend_from_slice(a);
    } else {
        let mut carry = 0u32;
        for &x in a {
            r.push((x << bits) | carry);
            carry = x >> (32 - bits);
        }
        if carry != 0 {
            r.push(carry);
        }
    }
    r
}

// truncating shift of magnitude; returns (result, any_bits_lost)
fn shr_mag(a: &[u32], n: u32) -> (Vec<u32>, bool) {
    let limbs = (n / 32) as usize;
    let bits = n % 32;
    if limbs >= a.len() {
        return (Vec::new(), !a.is_empty());
    }
    let mut lost = a[..limbs].iter().any(|&x| x != 0);
    let mut r = Vec::with_capacity(a.len() - limbs);
    if bits == 0 {
        r.extend_from_slice(&a[limbs..]);
    } else {
        if a[limbs] & ((1u32 << bits) - 1) != 0 {
            lost = true;
        }
        for i in limbs..a.len() {
            let hi = if i + 1 < a.len() { a[i + 1] << (32 - bits) } else { 0 };
            r.push((a[i] >> bits) | hi);
        }
    }
    trim(&mut r);
    (r, lost)
}

fn divrem_small_mag(a: &[u32], d: u32) -> (Vec<u32>, u32) {
    let mut q = vec![0u32; a.len()];
    let mut rem = 0u64;
    for i in (0..a.len()).rev() {
        let cur = (rem << 32) | a[i] as u64;
        q[i] = (cur / d as u64) as u32;
        rem = cur % d as u64;
    }
    trim(&mut q);
    (q, rem as u32)
}

// Knuth algorithm D. b non-empty.
fn divrem_mag(a: &[u32], b: &[u32]) -> (Vec<u32>, Vec<u32>) {
    assert!(!b.is_empty(), "Big: division by zero");
    if cmp_mag(a, b) == Ordering::Less {
        return (Vec::new(), a.to_vec());
    }
    if b.len() == 1 {
        let (q, r) = divrem_small_mag(a, b[0]);
        let mut rv = vec![r];
        trim(&mut rv);
        return (q, rv);
    }
    let s = b[b.len() - 1].leading_zeros();
    let v = shl_mag(b, s);
    let mut u = shl_mag(a, s);
    if u.len() == a.len() {
        u.push(0);
    }
    let n = v.len();
    let m = u.len() - n - 1;
    let mut q = vec![0u32; m + 1];
    let base: u64 = 1 << 32;
    for j in (0..=m).rev() {
        let num = ((u[j + n] as u64) << 32) | u[j + n - 1] as u64;
        let mut qhat = num / v[n - 1] as u64;
        let mut rhat = num % v[n - 1] as u64;
        while qhat >= base || qhat * v[n - 2] as u64 > ((rhat << 32) | u[j + n - 2] as u64) {
            qhat -= 1;
            rhat += v[n - 1] as u64;
            if rhat >= base {
                break;
            }
        }
        // multiply and subtract
        let mut borrow: i64 = 0;
        let mut carry: u64 = 0;
        for i in 0..n {
            let p = qhat * v[i] as u64 + carry;
            carry = p >> 32;
            let t = u[i + j] as i64 - borrow - (p & 0xffff_ffff) as i64;
            if t < 0 {
                u[i + j] = (t + (1i64 << 32)) as u32;
                borrow = 1;
            } else {
                u[i + j] = t as u32;
                borrow = 0;
            }
        }
        let t = u[j + n] as i64 - borrow - carry as i64;
        if t < 0 {
            u[j + n] = (t + (1i64 << 32)) as u32;
            // add back
            qhat -= 1;
            let mut c = 0u64;
            for i in 0..n {
                let s2 = u[i + j] as u64 + v[i] as u64 + c;
                u[i + j] = s2 as u32;
                c = s2 >> 32;
            }
            u[j + n] = (u[j + n] as u64 + c) as u32;
        } else {
            u[j + n] = t as u32;
        }
        q[j] = qhat as u32;
    }
    trim(&mut q);
    u.truncate(n);
    trim(&mut u);
    let (r, _) = shr_mag(&u, s);
    (q, r)
}

impl Big {
    pub fn zero() -> Big {
        Big { neg: false, mag: Vec::new() }
    }
    pub fn one() -> Big {
        Big::from_u64(1)
    }
    fn from_parts(neg: bool, mut mag: Vec<u32>) -> Big {
        trim(&mut mag);
        let neg = neg && !mag.is_empty();
        Big { neg, mag }
    }
    pub fn from_u128(mut x: u128) -> Big {
        let mut mag = Vec::with_capacity(4);
        while x != 0 {
            mag.push(x as u32);
            x >>= 32;
        }
        Big { neg: false, mag }
    }
    pub fn from_i128(x: i128) -> Big {
        let mut b = Big::from_u128(x.unsigned_abs());
        b.neg = x < 0;
        b
    }
    pub fn from_u64(x: u64) -> Big {
        Big::from_u128(x as u128)
    }
    pub fn from_i64(x: i64) -> Big {
        Big::from_i128(x as i128)
    }
    /// 2^n
    pub fn pow2(n: u32) -> Big {
        Big::one().shl(n)
    }
    pub fn is_zero(&self) -> bool {
        self.mag.is_empty()
    }
    pub fn is_neg(&self) -> bool {
        self.neg
    }
    pub fn is_pos(&self) -> bool {
        !self.neg && !self.mag.is_empty()
    }
    pub fn signum(&self) -> i32 {
        if self.mag.is_empty() {
            0
        } else if self.neg {
            -1
        } else {
            1
        }
    }
    pub fn neg(&self) -> Big {
        Big::from_parts(!self.neg, self.mag.clone())
    }
    pub fn abs(&self) -> Big {
        Big { neg: false, mag: self.mag.clone() }
    }
    pub fn add(&self, o: &Big) -> Big {
        if self.neg == o.neg {
            Big::from_parts(self.neg, add_mag(&self.mag, &o.mag))
        } else {
            match cmp_mag(&self.mag, &o.mag) {
                Ordering::Equal => Big::zero(),
                Ordering::Greater => Big::from_parts(self.neg, sub_mag(&self.mag, &o.mag)),
                Ordering::Less => Big::from_parts(o.neg, sub_mag(&o.mag, &self.mag)),
            }
        }
    }
    pub fn sub(&self, o: &Big) -> Big {
        self.add(&o.neg())
    }
    pub fn mul(&self, o: &Big) -> Big {
        Big::from_parts(self.neg != o.neg, mul_mag(&self.mag, &o.mag))
    }
    pub fn mul_i64(&self, k: i64) -> Big {
        self.mul(&Big::from_i64(k))
    }
    pub fn add_i64(&self, k: i64) -> Big {
        self.add(&Big::from_i64(k))
    }
    pub fn shl(&self, n: u32) -> Big {
        Big::from_parts(self.neg, shl_mag(&self.mag, n))
    }
    /// floor(self / 2^n)
    pub fn shr_floor(&self, n: u32) -> Big {
        let (m, lost) = shr_mag(&self.mag, n);
        let r = Big::from_parts(self.neg, m);
        if self.neg && lost {
            r.add_i64(-1)
        } else {
            r
        }
    }
    /// trunc(self / 2^n)
    pub fn shr_trunc(&self, n: u32) -> Big {
        let (m, _) = shr_mag(&self.mag, n);
        Big::from_parts(self.neg, m)
    }
    /// self * 2^k for signed k, rounding toward -inf when k < 0
    pub fn scale_floor(&self, k: i64) -> Big {
        if k >= 0 {
            self.shl(k as u32)
        } else {
            self.shr_floor((-k) as u32)
        }
    }
    /// truncating division: (q, r) with self = q*o + r, |r| < |o|, sign(r) = sign(self)
    pub fn divrem_trunc(&self, o: &Big) -> (Big, Big) {
        let (q, r) = divrem_mag(&self.mag, &o.mag);
        (Big::from_parts(self.neg != o.neg, q), Big::from_parts(self.neg, r))
    }
    pub fn div_trunc(&self, o: &Big) -> Big {
        self.divrem_trunc(o).0
    }
    pub fn rem_trunc(&self, o: &Big) -> Big {
        self.divrem_trunc(o).1
    }
    /// floor division: (q, r) with self = q*o + r, r has the sign of o (or zero)
    pub fn divrem_floor(&self, o: &Big) -> (Big, Big) {
        let (q, r) = self.divrem_trunc(o);
        if !r.is_zero() && (r.neg != o.neg) {
            (q.add_i64(-1), r.add(o))
        } else {
            (q, r)
        }
    }
    pub fn div_floor(&self, o: &Big) -> Big {
        self.divrem_floor(o).0
    }
    /// Euclidean: (q, r) with self = q*o + r, 0 <= r < |o|
    pub fn divrem_euclid(&self, o: &Big) -> (Big, Big) {
        let (q, r) = self.divrem_trunc(o);
        if r.neg {
            if o.neg {
                (q.add_i64(1), r.sub(o))
            } else {
                (q.add_i64(-1), r.add(o))
            }
        } else {
            (q, r)
        }
    }
    /// number of bits of the magnitude (0 for zero)
    pub fn bits(&self) -> u32 {
        match self.mag.last() {
            None => 0,
            Some(&t) => (self.mag.len() as u32) * 32 - t.leading_zeros(),
        }
    }
    /// bit i of the magnitude
    pub fn mag_bit(&self, i: u32) -> bool {
        let l = (i / 32) as usize;
        l < self.mag.len() && (self.mag[l] >> (i % 32)) & 1 == 1
    }
    pub fn mag_trailing_zeros(&self) -> u32 {
        let mut n = 0;
        for &l in &self.mag {
            if l == 0 {
                n += 32;
            } else {
                return n + l.trailing_zeros();
            }
        }
        n
    }
    pub fn is_odd(&self) -> bool {
        self.mag_bit(0)
    }
    /// low 128 bits of the two's complement representation
    pub fn low_u128(&self) -> u128 {
        let mut m: u128 = 0;
        for i in 0..4.min(self.mag.len()) {
            m |= (self.mag[i] as u128) << (32 * i);
        }
        if self.neg {
            m.wrapping_neg()
        } else {
            m
        }
    }
    pub fn to_u128(&self) -> Option<u128> {
        if self.neg || self.bits() > 128 {
            None
        } else {
            Some(self.low_u128())
        }
    }
    pub fn to_i128(&self) -> Option<i128> {
        if self.bits() <= 127 {
            let m = self.abs().low_u128() as i128;
            Some(if self.neg { -m } else { m })
        } else if self.neg && self.bits() == 128 && self.mag_trailing_zeros() == 127 {
            Some(i128::MIN)
        } else {
            None
        }
    }
    pub fn to_f64_approx(&self) -> f64 {
        let b = self.bits();
        let (top, sh) = if b > 64 {
            (self.abs().shr_trunc(b - 64).low_u128() as u64, (b - 64) as i32)
        } else {
            (self.abs().low_u128() as u64, 0)
        };
        let v = top as f64 * 2f64.powi(sh);
        if self.neg {
            -v
        } else {
            v
        }
    }
    pub fn pow(&self, mut e: u32) -> Big {
        let mut base = self.clone();
        let mut acc = Big::one();
        while e > 0 {
            if e & 1 == 1 {
                acc = acc.mul(&base);
            }
            e >>= 1;
            if e > 0 {
                base = base.mul(&base);
            }
        }
        acc
    }
    pub fn divrem_small(&self, d: u32) -> (Big, u32) {
        let (q, r) = divrem_small_mag(&self.mag, d);
        (Big::from_parts(self.neg, q), r)
    }
    /// digits must be valid for the radix (no sign, no separators)
    pub fn from_digits(digits: &[u8], radix: u32) -> Big {
        let mut mag: Vec<u32> = Vec::new();
        for &d in digits {
            let v = (d as char).to_digit(radix).expect("Big::from_digits: bad digit");
            let mut carry = v as u64;
            for l in mag.iter_mut() {
                let t = *l as u64 * radix as u64 + carry;
                *l = t as u32;
                carry = t >> 32;
            }
            if carry != 0 {
                mag.push(carry as u32);
            }
        }
        Big::from_parts(false, mag)
    }
    /// magnitude in the given radix, lower case, at least one digit
    pub fn to_digits(&self, radix: u32) -> String {
        if self.mag.is_empty() {
            return "0".to_string();
        }
        let mut out = Vec::new();
        let mut cur = self.mag.clone();
        // peel chunks of radix^k that fit in u32
        let (chunk, k) = {
            let mut c = radix;
            let mut k = 1;
            while (c as u64) * (radix as u64) <= u32::MAX as u64 {
                c *= radix;
                k += 1;
            }
            (c, k)
        };
        while !cur.is_empty() {
            let (q, mut r) = divrem_small_mag(&cur, chunk);
            cur = q;
            for _ in 0..k {
                out.push(std::char::from_digit(r % radix, radix).unwrap() as u8);
                r /= radix;
                if cur.is_empty() && r == 0 {
                    break;
                }
            }
        }
        while out.len() > 1 && *out.last().unwrap() == b'0' {
            out.pop();
        }
        out.reverse();
        String::from_utf8(out).unwrap()
    }
    pub fn min(a: &Big, b: &Big) -> Big {
        if a <= b {
            a.clone()
        } else {
            b.clone()
        }
    }
    pub fn max(a: &Big, b: &Big) -> Big {
        if a >= b {
            a.clone()
        } else {
            b.clone()
        }
    }
}

impl PartialOrd for Big {
    fn partial_cmp(&self, o: &Big) -> Option<Ordering> {
        Some(self.cmp(o))
    }
}
impl Ord for Big {
    fn cmp(&self, o: &Big) -> Ordering {
        match (self.neg, o.neg) {
            (false, true) => Ordering::Greater,
            (true, false) => Ordering::Less,
            (false, false) => cmp_mag(&self.mag, &o.mag),
            (true, true) => cmp_mag(&o.mag, &self.mag),
        }
    }
}
impl fmt::Display for Big {
    fn fmt(&self, f: &mut fmt::Formatter) -> fmt::Result {
        if self.neg {
            write!(f, "-")?;
        }
        write!(f, "{}", self.to_digits(10))
    }
}
impl fmt::Debug for Big {
    fn fmt(&self, f: &mut fmt::Formatter) -> fmt::Result {
        fmt::Display::fmt(self, f)
    }
}

macro_rules! binop {
    ($Tr:ident $m:ident) => {
        impl<'a> std::ops::$Tr<&'a Big> for &'a Big {
            type Output = Big;
            fn $m(self, o: &Big) -> Big {
                Big::$m(self, o)
            }
        }
        impl std::ops::$Tr<Big> for Big {
            type Output = Big;
            fn $m(self, o: Big) -> Big {
                Big::$m(&self, &o)
            }
        }
        impl<'a> std::ops::$Tr<&'a Big> for Big {
            type Output = Big;
            fn $m(self, o: &Big) -> Big {
                Big::$m(&self, o)
            }
        }
        impl<'a> std::ops::$Tr<Big> for &'a Big {
            type Output = Big;
            fn $m(self, o: Big) -> Big {
                Big::$m(self, &o)
            }
        }
    };
}
binop!(Add add);
binop!(Sub sub);
binop!(Mul mul);
impl std::ops::Neg for Big {
    type Output = Big;
    fn neg(self) -> Big {
        Big::neg(&self)
    }
}
impl<'a> std::ops::Neg for &'a Big {
    type Output = Big;
    fn neg(self) -> Big {
        Big::neg(self)
    }
}

/// Deterministic self-test (xorshift operands — not part of any property's
/// generated input, only a sanity check of the oracle arithmetic itself).
pub fn selftest() -> Result<u64, String> {
    let mut s: u64 = 0x9E37_79B9_7F4A_7C15;
    let mut next = || {
        s ^= s << 13;
        s ^= s >> 7;
        s ^= s << 17;
        s
    };
    let mut n = 0u64;
    for i in 0..20000 {
        let sh_a = (next() % 64) as u32;
        let sh_b = (next() % 64) as u32;
        let a = (next() as i64 >> sh_a) as i128;
        let b = (next() as i64 >> sh_b) as i128;
        let (ba, bb) = (Big::from_i128(a), Big::from_i128(b));
        let chk = |name: &str, got: &Big, want: i128| -> Result<(), String> {
            if got.to_i128() != Some(want) {
                Err(format!("Big selftest {}: a={} b={} got {} want {}", name, a, b, got, want))
            } else {
                Ok(())
            }
        };
        chk("add", &ba.add(&bb), a + b)?;
        chk("sub", &ba.sub(&bb), a - b)?;
        chk("mul", &ba.mul(&bb), a * b)?;
        if b != 0 {
            let (q, r) = ba.divrem_trunc(&bb);
            chk("div", &q, a / b)?;
            chk("rem", &r, a % b)?;
            let (q, r) = ba.divrem_euclid(&bb);
            chk("dive", &q, a.div_euclid(b))?;
            chk("reme", &r, a.rem_euclid(b))?;
            let (q, _r) = ba.divrem_floor(&bb);
            let fl = if (a % b != 0) && ((a < 0) != (b < 0)) { a / b - 1 } else { a / b };
            chk("divf", &q, fl)?;
        }
        let k = (i % 70) as u32;
        chk("shr", &ba.shr_floor(k.min(63)), a >> k.min(63))?;
        if ba.low_u128() != a as u128 {
            return Err(format!("Big selftest low_u128 a={}", a));
        }
        if (ba.cmp(&bb)) != a.cmp(&b) {
            return Err(format!("Big selftest cmp a={} b={}", a, b));
        }
        n += 10;
    }
    // large operands: identities
    for i in 0..4000 {
        let la = 1 + (next() % 12) as usize;
        let lb = 1 + (next() % 8) as usize;
        let mut ma: Vec<u32> = (0..la).map(|_| next() as u32).collect();
        let mut mb: Vec<u32> = (0..lb).map(|_| next() as u32).collect();
        if i % 7 == 0 {
            // stress qhat correction paths
            for l in mb.iter_mut() {
                *l = 0xffff_ffff;
            }
            if i % 14 == 0 {
                for l in ma.iter_mut() {
                    *l = 0xffff_ffff;
                }
            }
        }
        if i % 11 == 0 {
            let k = mb.len() - 1;
            mb[k] = 0x8000_0000;
            for l in mb[..k].iter_mut() {
                *l = 0;
            }
        }
        let a = Big::from_parts(next() & 1 == 1, std::mem::take(&mut ma));
        let b = Big::from_parts(next() & 1 == 1, std::mem::take(&mut mb));
        if b.is_zero() {
            continue;
        }
        let (q, r) = a.divrem_trunc(&b);
        if q.mul(&b).add(&r) != a || r.abs() >= b.abs() || (!r.is_zero() && r.is_neg() != a.is_neg()) {
            return Err(format!("Big selftest divrem identity a={} b={} q={} r={}", a, b, q, r));
        }
        let k = (next() % 200) as u32;
        if a.shl(k) != a.mul(&Big::pow2(k)) {
            return Err(format!("Big selftest shl a={} k={}", a, k));
        }
        if a.shl(k).shr_floor(k) != a {
            return Err("Big selftest shl/shr".into());
        }
        if a.shr_floor(k) != a.div_floor(&Big::pow2(k)) {
            return Err(format!("Big selftest shr_floor a={} k={}", a, k));
        }
        for radix in [2u32, 8, 10, 16] {
            let s = a.abs().to_digits(radix);
            if Big::from_digits(s.as_bytes(), radix) != a.abs() {
                return Err(format!("Big selftest digits radix {} a={}", radix, a));
            }
        }
        // (a+b)^2 = a^2 + 2ab + b^2
        let lhs = a.add(&b).pow(2);
        let rhs = a.mul(&a).add(&a.mul(&b).mul_i64(2)).add(&b.mul(&b));
        if lhs != rhs {
            return Err("Big selftest square identity".into());
        }
        n += 8;
    }
    if Big::from_i128(i128::MIN).to_i128() != Some(i128::MIN)
        || Big::from_u128(u128::MAX).to_u128() != Some(u128::MAX)
        || Big::from_u128(u128::MAX).add_i64(1).to_u128().is_some()
        || Big::from_i128(i128::MIN).add_i64(-1).to_i128().is_some()
        || Big::from_i128(-12345).to_string() != "-12345"
    {
        return Err("Big selftest conversions".into());
    }
    Ok(n)
}
