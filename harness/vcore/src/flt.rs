//! Exact IEEE-754 binary32 / binary64 decode and round-to-nearest-even encode,
//! written from the format definition (independent of the library under test
//! and of the host's float arithmetic except in the self-test).

use crate::big::Big;

#[derive(Clone, Copy, PartialEq, Eq, Debug, Hash)]
pub enum FK {
    F32,
    F64,
    /// IEEE binary16 (`half::f16`, optional feature `f16` of the library)
    F16,
    /// bfloat16 (`half::bf16`)
    BF16,
}

impl FK {
    pub fn prec(self) -> u32 {
        match self {
            FK::F32 => 24,
            FK::F64 => 53,
            FK::F16 => 11,
            FK::BF16 => 8,
        }
    }
    pub fn exp_bits(self) -> u32 {
        match self {
            FK::F32 => 8,
            FK::F64 => 11,
            FK::F16 => 5,
            FK::BF16 => 8,
        }
    }
    pub fn bias(self) -> i32 {
        (1 << (self.exp_bits() - 1)) - 1
    }
    pub fn nbits(self) -> u32 {
        match self {
            FK::F32 => 32,
            FK::F64 => 64,
            FK::F16 | FK::BF16 => 16,
        }
    }
    pub fn mask(self) -> u64 {
        match self {
            FK::F32 => 0xffff_ffff,
            FK::F64 => u64::MAX,
            FK::F16 | FK::BF16 => 0xffff,
        }
    }
    pub fn sign_bit(self) -> u64 {
        1u64 << (self.nbits() - 1)
    }
    pub fn mant_mask(self) -> u64 {
        (1u64 << (self.prec() - 1)) - 1
    }
    pub fn exp_field_max(self) -> u64 {
        (1u64 << self.exp_bits()) - 1
    }
    /// smallest exponent e such that values are multiples of 2^e
    pub fn min_exp2(self) -> i32 {
        1 - self.bias() - (self.prec() as i32 - 1)
    }
    pub fn inf(self, neg: bool) -> u64 {
        (self.exp_field_max() << (self.prec() - 1)) | if neg { self.sign_bit() } else { 0 }
    }
    pub fn max_finite(self, neg: bool) -> u64 {
        self.inf(neg) - 1
    }
    pub fn name(self) -> &'static str {
        match self {
            FK::F32 => "f32",
            FK::F64 => "f64",
            FK::F16 => "f16",
            FK::BF16 => "bf16",
        }
    }
}

#[derive(Clone, PartialEq, Eq, Debug)]
pub enum FV {
    Nan,
    Inf(bool),
    /// value = (-1)^neg * mant * 2^exp
    Fin { neg: bool, mant: u64, exp: i32 },
}

/// binary16 -> f64 from the format definition, written differently from `decode` (table of cases)
fn mine_f16(b: u16) -> f64 {
    let s = if b & 0x8000 != 0 { -1.0 } else { 1.0 };
    let e = ((b >> 10) & 0x1f) as i32;
    let m = (b & 0x3ff) as f64;
    if e == 0 {
        s * m * 2f64.powi(-24)
    } else {
        s * (1024.0 + m) * 2f64.powi(e - 25)
    }
}

pub fn decode(k: FK, bits: u64) -> FV {
    let bits = bits & k.mask();
    let neg = bits & k.sign_bit() != 0;
    let e = (bits >> (k.prec() - 1)) & k.exp_field_max();
    let m = bits & k.mant_mask();
    if e == k.exp_field_max() {
        if m == 0 {
            FV::Inf(neg)
        } else {
            FV::Nan
        }
    } else if e == 0 {
        FV::Fin { neg, mant: m, exp: k.min_exp2() }
    } else {
        FV::Fin { neg, mant: m | (1u64 << (k.prec() - 1)), exp: e as i32 - k.bias() - (k.prec() as i32 - 1) }
    }
}

/// Round `mag * 2^exp2` (mag >= 0) to nearest-even in format k; returns the bit pattern.
pub fn encode_rne(k: FK, neg: bool, mag: &Big, exp2: i64) -> u64 {
    let sign = if neg { k.sign_bit() } else { 0 };
    if mag.is_zero() {
        return sign;
    }
    let p = k.prec() as i64;
    let nb = mag.bits() as i64;
    // value in [2^(nb-1+exp2), 2^(nb+exp2))
    let mut e_top = nb - 1 + exp2; // exponent of the leading bit
    let e_min = 1 - k.bias() as i64; // exponent of the smallest normal
    // quantum exponent: result must be a multiple of 2^q
    let q = if e_top < e_min { k.min_exp2() as i64 } else { e_top - (p - 1) };
    // integer n = RNE(mag * 2^(exp2 - q))
    let sh = exp2 - q;
    let mut n = if sh >= 0 {
        mag.shl(sh as u32)
    } else {
        let s = (-sh) as u32;
        let fl = mag.shr_trunc(s);
        let rem = mag.sub(&fl.shl(s));
        let half = Big::pow2(s - 1);
        if rem > half || (rem == half && fl.is_odd()) {
            fl.add_i64(1)
        } else {
            fl
        }
    };
    // carry into the next binade
    if n.bits() as i64 > p {
        // n == 2^p exactly
        n = n.shr_trunc(1);
        e_top += 1;
        if e_top < e_min {
            // cannot happen: subnormal rounding up reaches at most 2^(p-1)
        }
        return finish(k, sign, n, q + 1);
    }
    finish(k, sign, n, q)
}

fn finish(k: FK, sign: u64, n: Big, q: i64) -> u64 {
    let p = k.prec();
    if n.is_zero() {
        return sign;
    }
    let m = n.to_u128().unwrap() as u64;
    if n.bits() < p {
        // subnormal (q == min_exp2)
        debug_assert!(q == k.min_exp2() as i64);
        return sign | m;
    }
    // normal: leading bit at position p-1; exponent of leading bit = q + p - 1
    let e = q + p as i64 - 1;
    let biased = e + k.bias() as i64;
    if biased >= k.exp_field_max() as i64 {
        return sign | (k.exp_field_max() << (p - 1));
    }
    sign | ((biased as u64) << (p - 1)) | (m & k.mant_mask())
}

/// next representable pattern toward +inf (on the ordered line; NaN/inf unchanged)
pub fn next_up(k: FK, bits: u64) -> u64 {
    let bits = bits & k.mask();
    match decode(k, bits) {
        FV::Nan => bits,
        FV::Inf(false) => bits,
        _ => {
            if bits == k.sign_bit() {
                1 // -0 -> smallest positive
            } else if bits & k.sign_bit() != 0 {
                bits - 1
            } else {
                bits + 1
            }
        }
    }
}
pub fn next_down(k: FK, bits: u64) -> u64 {
    let bits = bits & k.mask();
    match decode(k, bits) {
        FV::Nan => bits,
        FV::Inf(true) => bits,
        _ => {
            if bits == 0 {
                k.sign_bit() | 1
            } else if bits & k.sign_bit() != 0 {
                bits + 1
            } else {
                bits - 1
            }
        }
    }
}

/// compare the raw-scaled integer `a` (value a / 2^f) with a finite float value
pub fn cmp_fixed_float(a: &Big, f: u32, neg: bool, mant: u64, exp: i32) -> std::cmp::Ordering {
    let m = {
        let m = Big::from_u64(mant);
        if neg {
            m.neg()
        } else {
            m
        }
    };
    let s = exp as i64 + f as i64;
    if s >= 0 {
        a.cmp(&m.shl(s as u32))
    } else {
        a.shl((-s) as u32).cmp(&m)
    }
}

/// RNE(value * 2^f) of a finite float as an exact integer
pub fn float_to_raw_rne(neg: bool, mant: u64, exp: i32, f: u32) -> Big {
    let m = Big::from_u64(mant);
    let s = exp as i64 + f as i64;
    let r = if s >= 0 {
        m.shl(s as u32)
    } else {
        let sh = (-s) as u32;
        if sh > 70 {
            // mant < 2^64: far below half
            Big::zero()
        } else {
            let fl = m.shr_trunc(sh);
            let rem = m.sub(&fl.shl(sh));
            let half = Big::pow2(sh - 1);
            if rem > half || (rem == half && fl.is_odd()) {
                fl.add_i64(1)
            } else {
                fl
            }
        }
    };
    if neg {
        r.neg()
    } else {
        r
    }
}

pub fn selftest() -> Result<u64, String> {
    let mut s: u64 = 0x1234_5678_9abc_def1;
    let mut next = || {
        s ^= s << 13;
        s ^= s >> 7;
        s ^= s << 17;
        s
    };
    let mut n = 0;
    for i in 0..60000u64 {
        for k in [FK::F32, FK::F64, FK::F16, FK::BF16] {
            let mut bits = next() & k.mask();
            if i % 5 == 0 {
                bits &= !(k.exp_field_max() << (k.prec() - 1)); // subnormals
            }
            if i % 7 == 0 {
                bits |= (k.exp_field_max() - 1) << (k.prec() - 1); // top binade or above
            }
            match decode(k, bits) {
                FV::Fin { neg, mant, exp } => {
                    // encode(decode(x)) == x (except -0/+0 keep sign)
                    let back = encode_rne(k, neg, &Big::from_u64(mant), exp as i64);
                    if back != bits {
                        return Err(format!("flt selftest roundtrip {} {:#x} -> {:#x}", k.name(), bits, back));
                    }
                    // against the host's interpretation of the same bits
                    let host = match k {
                        FK::F32 => f32::from_bits(bits as u32) as f64,
                        FK::F64 => f64::from_bits(bits),
                        // bfloat16 is the upper half of binary32; binary16 has no host type (checked by the
                        // round trip above and by the hand-computed vectors below)
                        FK::BF16 => f32::from_bits((bits as u32) << 16) as f64,
                        FK::F16 => mine_f16(bits as u16),
                    };
                    let mine = (mant as f64) * 2f64.powi(exp / 2) * 2f64.powi(exp - exp / 2) * if neg { -1.0 } else { 1.0 };
                    if host != mine && !(host == 0.0 && mine == 0.0) {
                        return Err(format!("flt selftest decode {} {:#x}: {} vs {}", k.name(), bits, host, mine));
                    }
                }
                FV::Inf(neg) => {
                    if bits != k.inf(neg) {
                        return Err("flt selftest inf".into());
                    }
                }
                FV::Nan => {}
            }
            n += 1;
        }
        // integer -> float against the host's `as` casts (RNE by the language definition)
        let sh = next() % 64;
        let v = next() >> sh;
        let e32 = encode_rne(FK::F32, false, &Big::from_u64(v), 0);
        let e64 = encode_rne(FK::F64, false, &Big::from_u64(v), 0);
        if e32 != (v as f32).to_bits() as u64 || e64 != (v as f64).to_bits() {
            return Err(format!("flt selftest int cast {}", v));
        }
        let v128 = ((next() as u128) << 64 | next() as u128) >> (next() % 128);
        if encode_rne(FK::F32, false, &Big::from_u128(v128), 0) != (v128 as f32).to_bits() as u64
            || encode_rne(FK::F64, true, &Big::from_u128(v128), 0) != (-(v128 as f64)).to_bits()
        {
            return Err(format!("flt selftest u128 cast {}", v128));
        }
        // f64 -> f32 narrowing against the host (covers subnormal results and overflow)
        let fb = next();
        if let FV::Fin { neg, mant, exp } = decode(FK::F64, fb) {
            let want = (f64::from_bits(fb) as f32).to_bits() as u64;
            let got = encode_rne(FK::F32, neg, &Big::from_u64(mant), exp as i64);
            if want != got {
                return Err(format!("flt selftest narrowing {:#x}: {:#x} vs {:#x}", fb, got, want));
            }
        }
        // around the f32 subnormal range
        let eb = 0x3690_0000_0000_0000u64 + (next() % 0x0190_0000_0000_0000);
        if let FV::Fin { neg, mant, exp } = decode(FK::F64, eb) {
            let want = (f64::from_bits(eb) as f32).to_bits() as u64;
            let got = encode_rne(FK::F32, neg, &Big::from_u64(mant), exp as i64);
            if want != got {
                return Err(format!("flt selftest subnormal narrowing {:#x}: {:#x} vs {:#x}", eb, got, want));
            }
        }
        n += 4;
    }
    if next_up(FK::F32, 0x8000_0000) != 1 || next_down(FK::F32, 0) != 0x8000_0001 || next_up(FK::F64, 1) != 2 {
        return Err("flt selftest next".into());
    }
    Ok(n)
}
