//! Multi-worker runner: committed replays, exhaustive sub-spaces, stratified and
//! random proptest passes, accounting (evaluations, distinct non-trivial cases,
//! class histogram, samples), known-finding exclusion, partial evidence output.

use crate::layout::{L, NLAY};
use crate::out::{parse_u128, Case, Eval, Fail};
use proptest::strategy::{BoxedStrategy, Strategy};
use proptest::test_runner::{Config, RngSeed, TestCaseError, TestError, TestRunner};
use serde_json::{json, Map, Value};
use std::collections::hash_map::DefaultHasher;
use std::collections::{BTreeMap, BTreeSet, HashSet};
use std::hash::{Hash, Hasher};
use std::sync::atomic::{AtomicBool, Ordering};
use std::sync::Mutex;
use std::time::Instant;

#[derive(Clone, Copy, PartialEq, Eq, Debug)]
pub enum Tier {
    Quick,
    Thorough,
}
impl Tier {
    pub fn name(&self) -> &'static str {
        match self {
            Tier::Quick => "quick",
            Tier::Thorough => "thorough",
        }
    }
}

/// Work of one tier, in cases (never in seconds).
#[derive(Clone, Debug, Default)]
pub struct Budget {
    /// freely generated cases (layout drawn by the strategy)
    pub random: u64,
    /// stratified pass: cases generated for each layout index in `strata`
    pub per_stratum: u64,
    pub strata: Vec<u16>,
}

/// Known findings that are `open` in /verif/known_findings.json.
#[derive(Clone, Debug, Default)]
pub struct Kf {
    pub active: BTreeSet<String>,
    pub entries: Vec<Value>,
}
impl Kf {
    pub fn load(path: &str) -> Kf {
        let mut kf = Kf::default();
        if let Ok(txt) = std::fs::read_to_string(path) {
            if let Ok(v) = serde_json::from_str::<Value>(&txt) {
                if let Some(arr) = v.get("findings").and_then(|x| x.as_array()) {
                    for e in arr {
                        if e.get("status").and_then(|s| s.as_str()) == Some("open") {
                            if let Some(p) = e.get("predicate").and_then(|s| s.as_str()) {
                                kf.active.insert(p.to_string());
                                kf.entries.push(e.clone());
                            }
                        }
                    }
                }
            }
        }
        kf
    }
    pub fn is_active(&self, pred: &str) -> bool {
        self.active.contains(pred)
    }
}

pub trait Engine: Sync + Send {
    fn name(&self) -> &'static str;
    fn props(&self) -> Vec<&'static str>;
    fn op_name(&self, prop: &str, op: u16) -> String;
    fn op_from_name(&self, prop: &str, s: &str) -> Option<u16>;
    fn strategy(&self, prop: &str, stratum: Option<u16>) -> BoxedStrategy<Case>;
    fn budget(&self, prop: &str, tier: Tier) -> Budget;
    fn exh_len(&self, _prop: &str, _tier: Tier) -> u64 {
        0
    }
    fn exh_case(&self, _prop: &str, _tier: Tier, _i: u64) -> Case {
        unreachable!()
    }
    fn exh_desc(&self, _prop: &str, _tier: Tier) -> String {
        String::new()
    }
    fn eval(&self, prop: &str, case: &Case, chk: bool, kf: &Kf) -> Eval;
    fn rule(&self, prop: &str) -> String;
    fn assumptions(&self, _prop: &str) -> Vec<String> {
        Vec::new()
    }
    /// classes that must be hit at least once or the run is inconclusive (exit 2)
    fn required_classes(&self, _prop: &str, _tier: Tier) -> Vec<&'static str> {
        Vec::new()
    }
    /// does field `lay` hold a layout index (for coverage accounting / naming)?
    fn lay_is_layout(&self, _prop: &str) -> bool {
        true
    }
    fn case_json(&self, prop: &str, c: &Case) -> Value {
        default_case_json(self, prop, c)
    }
    fn case_from_json(&self, prop: &str, v: &Value) -> Option<Case> {
        default_case_from_json(self, prop, v)
    }
    /// oracle self-tests run at the start of every check
    fn selftest(&self) -> Result<u64, String> {
        Ok(0)
    }
    /// library execution only (no oracle): the labelled outputs of a case; used by the profile pair (C11)
    fn exec_raw(&self, _prop: &str, _c: &Case) -> crate::out::Outs {
        Vec::new()
    }
    /// how an output may differ between the two build profiles (C11)
    fn pair_class(&self, _prop: &str, _c: &Case, label: &str, rel: &[(String, crate::out::Out)]) -> crate::pair::PairClass {
        crate::pair::class_by_label(label, rel)
    }
    /// known-finding predicate for a profile difference (C11)
    fn pair_known(&self, _kf: &Kf, _prop: &str, _c: &Case, _label: &str, _chk_out: &crate::out::Out, _rel_out: &crate::out::Out) -> Option<&'static str> {
        None
    }
    /// generators (property ids) this engine contributes to the profile pair
    fn pair_gens(&self) -> Vec<&'static str> {
        self.props()
    }
    /// Some(generator) when this engine is a profile-pair wrapper
    fn gen_tag(&self) -> Option<String> {
        None
    }
    /// a small enumerated boundary block for children that are orders of magnitude slower than native code (VERIF_MINI,
    /// the 32-bit target tier): boundary operands crossed with each other on a spread of layouts
    fn mini_len(&self, _prop: &str) -> u64 {
        0
    }
    fn mini_case(&self, _prop: &str, _i: u64) -> Case {
        Case::default()
    }
    /// a sibling of the case — the same operand bits in another layout of the same width — used for the history check
    /// (`eval_hist`): the library's functions are pure, so a call's result must not depend on the calls made before it
    fn echo(&self, _prop: &str, _c: &Case) -> Option<Case> {
        None
    }
    /// targeted search (hill climbing on `Eval::score`): (generated samples per worker from which the starting points
    /// are chosen, climbs per worker); (0, 0) = the property has no score
    fn climb_budget(&self, _prop: &str, _tier: Tier) -> (u64, usize) {
        (0, 0)
    }
    /// number of operand coordinates a climb may move for this case
    fn climb_coords(&self, _prop: &str, _c: &Case) -> usize {
        0
    }
    /// the case with coordinate `coord` moved by `step` units in direction `up`; None when that leaves the domain
    fn climb_move(&self, _prop: &str, _c: &Case, _coord: usize, _up: bool, _step: u128) -> Option<Case> {
        None
    }
    /// the pattern search tries steps of 2^k units for every `climb_stride`-th k (1 = every power of two)
    fn climb_stride(&self, _prop: &str) -> u32 {
        1
    }
    /// bucket of a case for the choice of starting points (the best few of every bucket are climbed from)
    fn climb_bucket(&self, _prop: &str, c: &Case) -> u64 {
        (c.op as u64) << 16 | c.lay2 as u64
    }
}

pub fn default_case_json<E: Engine + ?Sized>(e: &E, prop: &str, c: &Case) -> Value {
    let mut m = Map::new();
    m.insert("engine".into(), json!(e.name()));
    m.insert("prop".into(), json!(prop));
    m.insert("op".into(), json!(e.op_name(prop, c.op)));
    if e.lay_is_layout(prop) && (c.lay as usize) < NLAY {
        m.insert("lay".into(), json!(L::from_idx(c.lay as usize).name()));
    } else {
        m.insert("lay".into(), json!(c.lay));
    }
    m.insert("lay2".into(), json!(c.lay2));
    m.insert("a".into(), json!(format!("{:#x}", c.a)));
    m.insert("b".into(), json!(format!("{:#x}", c.b)));
    if c.c != 0 {
        m.insert("c".into(), json!(format!("{:#x}", c.c)));
    }
    if !c.s.is_empty() {
        m.insert("s".into(), json!(c.s));
    }
    if !c.prog.is_empty() {
        let p: Vec<Value> = c
            .prog
            .iter()
            .map(|(o, x, y)| json!([e.op_name(prop, *o), format!("{:#x}", x), format!("{:#x}", y)]))
            .collect();
        m.insert("prog".into(), Value::Array(p));
    }
    Value::Object(m)
}

pub fn default_case_from_json<E: Engine + ?Sized>(e: &E, prop: &str, v: &Value) -> Option<Case> {
    let mut c = Case::default();
    c.op = e.op_from_name(prop, v.get("op")?.as_str()?)?;
    c.lay = match v.get("lay")? {
        Value::String(s) => L::parse(s)?.idx() as u16,
        x => x.as_u64()? as u16,
    };
    c.lay2 = v.get("lay2").and_then(|x| x.as_u64()).unwrap_or(0) as u16;
    c.a = parse_u128(v.get("a").and_then(|x| x.as_str()).unwrap_or("0"))?;
    c.b = parse_u128(v.get("b").and_then(|x| x.as_str()).unwrap_or("0"))?;
    c.c = parse_u128(v.get("c").and_then(|x| x.as_str()).unwrap_or("0"))?;
    c.s = v.get("s").and_then(|x| x.as_str()).unwrap_or("").to_string();
    if let Some(p) = v.get("prog").and_then(|x| x.as_array()) {
        for st in p {
            let a = st.as_array()?;
            c.prog.push((
                e.op_from_name(prop, a[0].as_str()?)?,
                parse_u128(a[1].as_str()?)?,
                parse_u128(a[2].as_str()?)?,
            ));
        }
    }
    Some(c)
}

const DISTINCT_CAP: usize = 3_000_000;
const MAX_SAMPLES: usize = 48;

#[derive(Default)]
pub struct Acc {
    pub evaluations: u64,
    pub skipped: u64,
    pub nontrivial_evals: u64,
    pub distinct: HashSet<u64>,
    pub distinct_capped: bool,
    pub classes: BTreeMap<&'static str, u64>,
    pub samples: Vec<Value>,
    pub class_sampled: BTreeMap<&'static str, u32>,
    pub layouts: BTreeSet<u16>,
    pub known: BTreeMap<&'static str, u64>,
    /// targeted search: climbs run, evaluations spent in them, best score seen, and the case it was seen at
    pub climbs: u64,
    pub climb_evals: u64,
    pub best_score: f64,
    pub best_case: Option<Value>,
}

/// another layout of the same width and signedness, chosen by `h`
pub fn same_width_layout(lay: u16, h: u64) -> u16 {
    if (lay as usize) >= NLAY {
        return lay;
    }
    let l = L::from_idx(lay as usize);
    let f2 = (l.f + 1 + (h % l.w as u64) as u32) % (l.w + 1);
    L::new(l.signed, l.w, f2).idx() as u16
}

/// Evaluate a case and, for one case in 16 (decided by the case's own hash, so a replay does the same), check that
/// the outcome does not depend on history: evaluate the engine's sibling case (same operand bits, another layout of the
/// same width), then the case again. State kept between calls (a memo keyed by raw bits, a static scratch buffer) is
/// invisible to single-call checks. Mismatches of the repeated evaluation are labelled `after-sibling-call:`.
pub fn eval_hist<E: Engine + ?Sized>(e: &E, prop: &str, c: &Case, chk: bool, kf: &Kf) -> Eval {
    let mut ev = e.eval(prop, c, chk, kf);
    if !ev.fails.is_empty() || ev.skipped {
        return ev;
    }
    let h = case_hash(c);
    if h % 16 != 0 {
        return ev;
    }
    if let Some(sib) = e.echo(prop, c) {
        let ev2 = e.eval(prop, &sib, chk, kf);
        for f in ev2.fails {
            ev.fails.push(Fail { label: format!("sibling-call({}):{}", e.case_json(prop, &sib), f.label), got: f.got, want: f.want });
        }
        let ev3 = e.eval(prop, c, chk, kf);
        for f in ev3.fails {
            ev.fails.push(Fail { label: format!("after-sibling-call:{}", f.label), got: f.got, want: f.want });
        }
        ev.class("history(sibling call in another layout, then the case again)");
    }
    ev
}

fn case_hash(c: &Case) -> u64 {
    let mut h = DefaultHasher::new();
    c.hash(&mut h);
    h.finish()
}

impl Acc {
    fn record<E: Engine + ?Sized>(&mut self, e: &E, prop: &str, c: &Case, ev: &Eval) {
        if ev.skipped {
            self.skipped += 1;
            return;
        }
        self.evaluations += 1;
        if e.lay_is_layout(prop) {
            self.layouts.insert(c.lay);
        }
        for k in &ev.known {
            *self.known.entry(k).or_insert(0) += 1;
        }
        if ev.nontrivial {
            self.nontrivial_evals += 1;
            if self.distinct.len() < DISTINCT_CAP {
                self.distinct.insert(case_hash(c));
            } else {
                self.distinct_capped = true;
            }
        }
        let mut want_sample = false;
        for cl in &ev.classes {
            *self.classes.entry(cl).or_insert(0) += 1;
            let n = self.class_sampled.entry(cl).or_insert(0);
            if *n < 1 && ev.nontrivial {
                *n += 1;
                want_sample = true;
            }
        }
        if (want_sample || (self.samples.len() < 4 && ev.nontrivial)) && self.samples.len() < MAX_SAMPLES {
            let mut j = e.case_json(prop, c);
            if let Some(o) = j.as_object_mut() {
                o.remove("engine");
                o.remove("prop");
                o.insert("classes".into(), json!(ev.classes));
                if !ev.note.is_empty() {
                    o.insert("observed".into(), json!(ev.note));
                }
            }
            self.samples.push(j);
        }
    }
    fn merge(&mut self, o: Acc) {
        self.evaluations += o.evaluations;
        self.climbs += o.climbs;
        self.climb_evals += o.climb_evals;
        if o.best_score > self.best_score {
            self.best_score = o.best_score;
            self.best_case = o.best_case.clone();
        }
        self.skipped += o.skipped;
        self.nontrivial_evals += o.nontrivial_evals;
        for h in o.distinct {
            if self.distinct.len() < DISTINCT_CAP * 4 {
                self.distinct.insert(h);
            } else {
                self.distinct_capped = true;
            }
        }
        self.distinct_capped |= o.distinct_capped;
        for (k, v) in o.classes {
            *self.classes.entry(k).or_insert(0) += v;
        }
        for s in o.samples {
            if self.samples.len() < MAX_SAMPLES {
                self.samples.push(s);
            }
        }
        self.layouts.extend(o.layouts);
        for (k, v) in o.known {
            *self.known.entry(k).or_insert(0) += v;
        }
    }
}

#[derive(Clone, Debug)]
pub struct Violation {
    pub case: Case,
    pub fails: Vec<Fail>,
    pub origin: String,
}

pub fn splitmix(mut z: u64) -> u64 {
    z = z.wrapping_add(0x9E37_79B9_7F4A_7C15);
    z = (z ^ (z >> 30)).wrapping_mul(0xBF58_476D_1CE4_E5B9);
    z = (z ^ (z >> 27)).wrapping_mul(0x94D0_49BB_1331_11EB);
    z ^ (z >> 31)
}
fn str_hash(s: &str) -> u64 {
    let mut h = DefaultHasher::new();
    s.hash(&mut h);
    h.finish()
}

pub struct RunCfg {
    pub prop: String,
    pub tier: Tier,
    pub seed: u64,
    pub chk: bool,
    pub threads: usize,
    pub replay_dir: String,
    pub out: String,
    pub kf_path: String,
    /// scale factor on budgets (for experiments), 1.0 normally
    pub scale: f64,
}

fn proptest_config(cases: u32, seed: u64) -> Config {
    Config {
        cases,
        failure_persistence: None,
        rng_seed: RngSeed::Fixed(seed),
        max_shrink_iters: 200_000,
        max_global_rejects: 1_000_000,
        verbose: 0,
        ..Config::default()
    }
}

/// Run one proptest pass; returns the shrunk failing case if any.
fn proptest_pass<E: Engine + ?Sized>(
    e: &E,
    cfg: &RunCfg,
    kf: &Kf,
    strat: &BoxedStrategy<Case>,
    cases: u64,
    seed: u64,
    acc: &mut Acc,
    stop: &AtomicBool,
) -> Option<Violation> {
    let mut left = cases;
    let mut chunk_no = 0u64;
    // proptest's case count is u32; run in chunks, each with its own derived seed
    while left > 0 && !stop.load(Ordering::Relaxed) {
        let n = left.min(1_000_000) as u32;
        left -= n as u64;
        let mut runner = TestRunner::new(proptest_config(n, splitmix(seed ^ chunk_no.wrapping_mul(0x1234_5678_9abc_def1))));
        chunk_no += 1;
        let failed = std::cell::Cell::new(false);
        let last_fails: std::cell::RefCell<Vec<Fail>> = std::cell::RefCell::new(Vec::new());
        let acc_cell = std::cell::RefCell::new(&mut *acc);
        let res = runner.run(strat, |case| {
            if stop.load(Ordering::Relaxed) && !failed.get() {
                return Ok(());
            }
            let t_eval = Instant::now();
            let ev = eval_hist(e, &cfg.prop, &case, cfg.chk, kf);
            if t_eval.elapsed().as_millis() > 1500 && std::env::var_os("VERIF_SLOW").is_some() {
                eprintln!("slow case ({} ms): {}", t_eval.elapsed().as_millis(), e.case_json(&cfg.prop, &case));
            }
            if !failed.get() {
                acc_cell.borrow_mut().record(e, &cfg.prop, &case, &ev);
            }
            if !ev.fails.is_empty() {
                failed.set(true);
                *last_fails.borrow_mut() = ev.fails.clone();
                return Err(TestCaseError::fail("mismatch"));
            }
            Ok(())
        });
        let last_fails = last_fails.into_inner();
        match res {
            Ok(()) => {}
            Err(TestError::Fail(_, case)) => {
                // re-evaluate the minimal case to report its own mismatches
                let ev = eval_hist(e, &cfg.prop, &case, cfg.chk, kf);
                let fails = if ev.fails.is_empty() { last_fails } else { ev.fails };
                stop.store(true, Ordering::Relaxed);
                return Some(Violation { case, fails, origin: "generated+shrunk".into() });
            }
            Err(TestError::Abort(r)) => {
                eprintln!("proptest aborted: {}", r);
            }
        }
    }
    None
}

/// Targeted search. `samples` cases are drawn from the property's strategy (proptest, seeded); the best-scoring few of
/// every bucket become starting points; from each, every operand coordinate is moved by a pattern search (steps of 2^k units, k descending
/// from the top of the operand to one unit, both directions) until no move improves the score. Every evaluation goes
/// through the ordinary oracle, so a case that violates the property anywhere along a climb is reported as such.
#[allow(clippy::too_many_arguments)]
fn climb_pass<E: Engine + ?Sized>(e: &E, cfg: &RunCfg, kf: &Kf, samples: u64, climbs: usize, seed: u64, acc: &mut Acc, stop: &AtomicBool) -> Option<Violation> {
    use proptest::strategy::ValueTree;
    let prop = cfg.prop.as_str();
    let strat = e.strategy(prop, None);
    let mut runner = TestRunner::new(proptest_config(1, seed));
    let mut buckets: std::collections::BTreeMap<u64, Vec<(f64, Case)>> = std::collections::BTreeMap::new();
    let mut violation: Option<Violation> = None;
    let mut eval = |c: &Case, acc: &mut Acc, climbing: bool| -> f64 {
        let ev = e.eval(prop, c, cfg.chk, kf);
        acc.record(e, prop, c, &ev);
        if climbing {
            acc.climb_evals += 1;
        }
        if ev.score.is_finite() && ev.score > acc.best_score && !ev.skipped && ev.known.is_empty() {
            acc.best_score = ev.score;
            acc.best_case = Some(e.case_json(prop, c));
        }
        if !ev.fails.is_empty() && violation.is_none() {
            violation = Some(Violation { case: c.clone(), fails: ev.fails.clone(), origin: if climbing { "targeted search (climbed)".into() } else { "generated".into() } });
        }
        // a case excused by a known finding is no starting point and no summit
        if ev.skipped || !ev.known.is_empty() { -1.0 } else if ev.score.is_finite() { ev.score } else { 0.0 }
    };
    for _ in 0..samples {
        if stop.load(Ordering::Relaxed) {
            return None;
        }
        let c = match strat.new_tree(&mut runner) {
            Ok(t) => t.current(),
            Err(_) => continue,
        };
        if e.climb_coords(prop, &c) == 0 {
            continue;
        }
        let s = eval(&c, acc, false);
        if s <= 0.0 {
            continue;
        }
        let b = buckets.entry(e.climb_bucket(prop, &c)).or_default();
        b.push((s, c));
        if b.len() > 8 {
            b.sort_by(|x, y| y.0.total_cmp(&x.0));
            b.truncate(2);
        }
    }
    // starting points: best two of every bucket, best first, at most `climbs`
    let mut starts: Vec<(f64, Case)> = Vec::new();
    for (_, mut b) in buckets {
        b.sort_by(|x, y| y.0.total_cmp(&x.0));
        b.truncate(2);
        starts.extend(b);
    }
    starts.sort_by(|x, y| y.0.total_cmp(&x.0));
    starts.truncate(climbs);
    for (s0, c0) in starts {
        if stop.load(Ordering::Relaxed) {
            break;
        }
        acc.climbs += 1;
        let (mut cur, mut best) = (c0, s0);
        for _round in 0..3 {
            let mut improved = false;
            for coord in 0..e.climb_coords(prop, &cur) {
                // pattern search with descending step: 2^k units for k from the top of the operand down to one unit,
                // each tried in both directions (and again while it keeps improving)
                let stride = e.climb_stride(prop).max(1);
                for k in (0..127u32).rev().filter(|k| k % stride == 0) {
                    let step = 1u128 << k;
                    for up in [true, false] {
                        for _ in 0..6 {
                            match e.climb_move(prop, &cur, coord, up, step) {
                                Some(n) => {
                                    let s = eval(&n, acc, true);
                                    if s > best {
                                        best = s;
                                        cur = n;
                                        improved = true;
                                    } else {
                                        break;
                                    }
                                }
                                None => break,
                            }
                        }
                    }
                }
            }
            if !improved {
                break;
            }
        }
    }
    if violation.is_some() {
        stop.store(true, Ordering::Relaxed);
    }
    violation
}

pub struct RunResult {
    pub acc: Acc,
    pub violations: Vec<Violation>,
    pub replayed: u64,
    pub known_lines: Vec<String>,
    pub wall_s: f64,
    pub exh_cases: u64,
}

fn load_replays<E: Engine + ?Sized>(e: &E, prop: &str, dir: &str) -> Vec<(String, Case)> {
    let mut v = Vec::new();
    if let Ok(rd) = std::fs::read_dir(dir) {
        let mut paths: Vec<_> = rd.filter_map(|x| x.ok()).map(|x| x.path()).collect();
        paths.sort();
        for p in paths {
            if p.extension().and_then(|x| x.to_str()) != Some("json") {
                continue;
            }
            if let Ok(txt) = std::fs::read_to_string(&p) {
                if let Ok(j) = serde_json::from_str::<Value>(&txt) {
                    let cj = j.get("case").unwrap_or(&j);
                    if cj.get("engine").and_then(|x| x.as_str()).map(|n| n != e.name()).unwrap_or(false) {
                        continue;
                    }
                    let p_prop = cj.get("prop").and_then(|x| x.as_str()).unwrap_or(prop).to_string();
                    match e.gen_tag() {
                        // profile-pair replays carry the generator's property id and pair_of = C11
                        Some(g) => {
                            if cj.get("pair_of").and_then(|x| x.as_str()) != Some("C11") || p_prop != g {
                                continue;
                            }
                        }
                        None => {
                            if p_prop != prop || cj.get("pair_of").is_some() {
                                continue;
                            }
                        }
                    }
                    match e.case_from_json(prop, cj) {
                        Some(c) => v.push((p.display().to_string(), c)),
                        None => eprintln!("warning: cannot decode replay {}", p.display()),
                    }
                }
            }
        }
    }
    v
}

pub fn run<E: Engine + ?Sized>(e: &E, cfg: &RunCfg) -> RunResult {
    let t0 = Instant::now();
    let kf = Kf::load(&cfg.kf_path);
    let prop = cfg.prop.as_str();
    let mut total = Acc::default();
    let mut violations: Vec<Violation> = Vec::new();
    let mut known_lines = Vec::new();

    // 0. known-finding examples: report each that still reproduces
    for ent in &kf.entries {
        let applies = ent
            .get("properties")
            .and_then(|p| p.as_array())
            .map(|a| a.iter().any(|x| x.as_str() == Some(prop)))
            .unwrap_or(false);
        if !applies || ent.get("engine").and_then(|x| x.as_str()) != Some(e.name()) {
            continue;
        }
        if let Some(g) = ent.get("gen").and_then(|x| x.as_str()) {
            if e.gen_tag().as_deref() != Some(g) {
                continue;
            }
        } else if e.gen_tag().is_some() {
            continue;
        }
        let pred = ent.get("predicate").and_then(|x| x.as_str()).unwrap_or("");
        let what = ent.get("what").and_then(|x| x.as_str()).unwrap_or("");
        let mut reproduced = false;
        let mut profile_applies = true;
        if let Some(p) = ent.get("profile").and_then(|x| x.as_str()) {
            profile_applies = p == profile_name() || p == "both";
        }
        if let Some(ex) = ent.get("example") {
            let exprop = ex.get("prop").and_then(|x| x.as_str()).unwrap_or(prop).to_string();
            if let Some(c) = e.case_from_json(&exprop, ex) {
                let ev = e.eval(&exprop, &c, cfg.chk, &kf);
                reproduced = ev.known.iter().any(|k| *k == pred);
                if !ev.fails.is_empty() {
                    violations.push(Violation { case: c, fails: ev.fails, origin: format!("known-finding example {}", pred) });
                }
            }
        }
        if reproduced {
            known_lines.push(format!("KNOWN-FINDING: property={} {} [{}]", prop, what, pred));
        } else if profile_applies {
            known_lines.push(format!("note: known finding {} does not reproduce on its example in this profile", pred));
        }
    }

    // 1. committed replays (regressions)
    let replays = load_replays(e, prop, &cfg.replay_dir);
    let replayed = replays.len() as u64;
    for (path, c) in &replays {
        let ev = eval_hist(e, prop, c, cfg.chk, &kf);
        total.record(e, prop, c, &ev);
        if !ev.fails.is_empty() {
            violations.push(Violation { case: c.clone(), fails: ev.fails, origin: format!("replay {}", path) });
        }
    }

    let stop = AtomicBool::new(false);
    let w = cfg.threads.max(1);
    // VERIF_MINI=<n>: a very small run (n generated cases per worker from the free strategy, nothing else) for a child
    // that is orders of magnitude slower than a native one (the profile-pair child interpreted by Miri for a 32-bit target)
    let mini: Option<u64> = std::env::var("VERIF_MINI").ok().and_then(|s| s.parse().ok());
    let exh_len = if mini.is_some() { e.mini_len(prop) } else { e.exh_len(prop, cfg.tier) };
    let mut budget = e.budget(prop, cfg.tier);
    if let Some(n) = mini {
        budget.per_stratum = 0;
        budget.random = n * cfg.threads.max(1) as u64;
    }
    let scale = |n: u64| -> u64 { ((n as f64) * cfg.scale).ceil() as u64 };
    let results: Mutex<Vec<(Acc, Vec<Violation>)>> = Mutex::new(Vec::new());
    let base_seed = splitmix(cfg.seed ^ str_hash(prop));

    std::thread::scope(|sc| {
        for wi in 0..w {
            let kf = &kf;
            let stop = &stop;
            let results = &results;
            let budget = &budget;
            sc.spawn(move || {
                let mut acc = Acc::default();
                let mut viols = Vec::new();
                // 2. exhaustive sub-space, partitioned by index
                let mut i = wi as u64;
                let mut exh_fail = 0;
                while i < exh_len && !stop.load(Ordering::Relaxed) {
                    let c = if mini.is_some() { e.mini_case(prop, i) } else { e.exh_case(prop, cfg.tier, i) };
                    let ev = e.eval(prop, &c, cfg.chk, kf);
                    acc.record(e, prop, &c, &ev);
                    if !ev.fails.is_empty() {
                        viols.push(Violation { case: c, fails: ev.fails, origin: "exhaustive".into() });
                        exh_fail += 1;
                        if exh_fail >= 1 {
                            stop.store(true, Ordering::Relaxed);
                            break;
                        }
                    }
                    i += w as u64;
                }
                // 3. stratified pass: every stratum gets per_stratum cases
                if budget.per_stratum > 0 {
                    let mut k = wi;
                    while k < budget.strata.len() && !stop.load(Ordering::Relaxed) {
                        let st = budget.strata[k];
                        let strat = e.strategy(prop, Some(st));
                        let seed = splitmix(base_seed ^ (0x5151 + st as u64).wrapping_mul(0x9E37_79B9));
                        if let Some(v) = proptest_pass(e, cfg, kf, &strat, scale(budget.per_stratum), seed, &mut acc, stop) {
                            viols.push(v);
                        }
                        k += w;
                    }
                }
                // 4. free random pass
                if budget.random > 0 && !stop.load(Ordering::Relaxed) {
                    let share = scale(budget.random) / w as u64 + 1;
                    let strat = e.strategy(prop, None);
                    let seed = splitmix(base_seed ^ (0xABCD_0000 + wi as u64).wrapping_mul(0xD1B5_4A32_D192_ED03));
                    if let Some(v) = proptest_pass(e, cfg, kf, &strat, share, seed, &mut acc, stop) {
                        viols.push(v);
                    }
                }
                // 5. targeted search on the engine's score
                let (cs, cn) = e.climb_budget(prop, cfg.tier);
                if cn > 0 && !stop.load(Ordering::Relaxed) && std::env::var_os("VERIF_NO_CLIMB").is_none() && std::env::var_os("VERIF_MINI").is_none() {
                    let seed = splitmix(base_seed ^ (0xC11B_0000 + wi as u64).wrapping_mul(0xA24B_AED4_963E_E407));
                    if let Some(v) = climb_pass(e, cfg, kf, scale(cs), cn, seed, &mut acc, stop) {
                        viols.push(v);
                    }
                }
                results.lock().unwrap().push((acc, viols));
            });
        }
    });
    for (acc, v) in results.into_inner().unwrap() {
        total.merge(acc);
        violations.extend(v);
    }
    RunResult { acc: total, violations, replayed, known_lines, wall_s: t0.elapsed().as_secs_f64(), exh_cases: exh_len }
}

/// Write a violation's replay file; returns its path.
pub fn write_replay<E: Engine + ?Sized>(e: &E, cfg: &RunCfg, v: &Violation) -> String {
    let dir = format!("{}/found", cfg.replay_dir);
    let _ = std::fs::create_dir_all(&dir);
    let cj = e.case_json(&cfg.prop, &v.case);
    let h = case_hash(&v.case);
    let path = format!("{}/{}-{}-{:016x}.json", dir, cfg.prop, profile_name(), h);
    let fails: Vec<Value> = v.fails.iter().map(|f| json!({"output": f.label, "got": f.got, "want": f.want})).collect();
    let doc = json!({
        "case": cj,
        "profile": profile_name(),
        "origin": v.origin,
        "mismatches": fails,
        "seed": cfg.seed,
        "tier": cfg.tier.name(),
    });
    let _ = std::fs::write(&path, serde_json::to_string_pretty(&doc).unwrap());
    path
}

pub fn partial_json<E: Engine + ?Sized>(e: &E, cfg: &RunCfg, r: &RunResult, replay_paths: &[String]) -> Value {
    let classes: Map<String, Value> = r.acc.classes.iter().map(|(k, v)| (k.to_string(), json!(v))).collect();
    let known: Map<String, Value> = r.acc.known.iter().map(|(k, v)| (k.to_string(), json!(v))).collect();
    let missing: Vec<&str> = e
        .required_classes(&cfg.prop, cfg.tier)
        .into_iter()
        .filter(|c| r.acc.classes.get(c).copied().unwrap_or(0) == 0)
        // a run with a reduced budget (the off-diagonal profiles) is additional to the full-budget runs of the same
        // generators; generator health is judged on those
        .filter(|_| cfg.scale >= 1.0)
        .collect();
    json!({
        "engine": e.name(),
        "property_id": cfg.prop,
        "tier": cfg.tier.name(),
        "seed": cfg.seed,
        "profile": profile_name(),
        "evaluations": r.acc.evaluations,
        "nontrivial_evaluations": r.acc.nontrivial_evals,
        "distinct_nontrivial": r.acc.distinct.len(),
        "distinct_hashes_capped": r.acc.distinct_capped,
        "skipped_outside_domain": r.acc.skipped,
        "classes": classes,
        "samples": r.acc.samples,
        "layouts_covered": r.acc.layouts.len(),
        "known_finding_hits": known,
        "exhaustive_cases": r.exh_cases,
        "exhaustive_subspace": e.exh_desc(&cfg.prop, cfg.tier),
        "replayed_regressions": r.replayed,
        "rule": e.rule(&cfg.prop),
        "assumptions": e.assumptions(&cfg.prop),
        "violations": r.violations.len(),
        "violation_replays": replay_paths,
        "missing_required_classes": missing,
        "targeted_search": json!({"climbs": r.acc.climbs, "evaluations_in_climbs": r.acc.climb_evals, "best_score_seen": r.acc.best_score, "best_score_case": r.acc.best_case, "score": "how close the observation is to the stated bound: observed error (C13-C16) or loop-iteration count (C17) divided by the bound; 1.0 = at the bound"}),
        "wall_s": r.wall_s,
    })
}

/// Common command line of every engine binary.
/// `--prop ID --tier quick|thorough --seed N --out FILE --replay-dir DIR --kf FILE [--threads N] [--scale X]`
/// `--replay FILE --kf FILE`
pub fn main_with<E: Engine>(e: &E, chk: bool) -> i32 {
    main_with2(e, chk, chk)
}

static PROFILE: std::sync::OnceLock<&'static str> = std::sync::OnceLock::new();
/// name of the build profile of this binary: `chk` (debug assertions and overflow checks), `rel` (neither),
/// `mxa` (overflow checks only), `mxb` (debug assertions only)
pub fn profile_name() -> &'static str {
    PROFILE.get().copied().unwrap_or("rel")
}

/// `da` / `oc`: whether the harness crates that follow the profile were compiled with debug assertions / overflow checks.
/// Everything downstream only distinguishes "a checking profile" (any of the two on) from the non-checking one.
pub fn main_with2<E: Engine>(e: &E, da: bool, oc: bool) -> i32 {
    crate::out::install_silent_panic_hook();
    let args: Vec<String> = std::env::args().collect();
    let get = |k: &str| -> Option<String> { args.iter().position(|a| a == k).and_then(|i| args.get(i + 1).cloned()) };
    let is = match (da, oc) {
        (true, true) => "chk",
        (false, false) => "rel",
        (false, true) => "mxa",
        (true, false) => "mxb",
    };
    let _ = PROFILE.set(is);
    let chk = is != "rel";
    if let Some(want) = get("--expect-profile") {
        if want != is {
            eprintln!("binary was built with the wrong profile: expected {}, is {}", want, is);
            return 2;
        }
    }
    if args.iter().any(|a| a == "--serve") {
        return crate::pair::serve(e);
    }
    // self-tests of the oracle code
    let st = crate::selftest().and_then(|n| e.selftest().map(|m| n + m));
    let selftests = match st {
        Ok(n) => n,
        Err(m) => {
            eprintln!("ORACLE SELF-TEST FAILED: {}", m);
            return 2;
        }
    };
    let kf_path = get("--kf").unwrap_or_else(|| "/verif/known_findings.json".into());
    if let Some(file) = get("--replay") {
        let kf = Kf::load(&kf_path);
        let txt = match std::fs::read_to_string(&file) {
            Ok(t) => t,
            Err(er) => {
                eprintln!("cannot read {}: {}", file, er);
                return 2;
            }
        };
        let j: Value = match serde_json::from_str(&txt) {
            Ok(j) => j,
            Err(er) => {
                eprintln!("bad json {}: {}", file, er);
                return 2;
            }
        };
        let cj = j.get("case").unwrap_or(&j).clone();
        let prop = get("--prop").or_else(|| cj.get("prop").and_then(|x| x.as_str()).map(|s| s.to_string())).unwrap_or_default();
        let c = match e.case_from_json(&prop, &cj) {
            Some(c) => c,
            None => {
                eprintln!("cannot decode case in {}", file);
                return 2;
            }
        };
        let is_pair = cj.get("pair_of").and_then(|x| x.as_str()) == Some("C11");
        if is_pair && !chk {
            // the non-checking binary only serves as the child of a profile-pair replay
            return 0;
        }
        let ev = if is_pair {
            match get("--child") {
                Some(ch) => crate::pair::set_child(&ch),
                None => {
                    eprintln!("a C11 replay needs --child <binary built with the other profile>");
                    return 2;
                }
            }
            let pe = crate::pair::PairEngine { inner: e, gen: prop.clone() };
            pe.eval("C11", &c, true, &kf)
        } else {
            eval_hist(e, &prop, &c, chk, &kf)
        };
        let prop = if is_pair { "C11".to_string() } else { prop };
        println!("replay {} profile={} case={}", file, if is_pair { "pair(checking vs rel)" } else { profile_name() }, e.case_json(if is_pair { cj.get("prop").and_then(|x| x.as_str()).unwrap_or("") } else { &prop }, &c));
        println!("  observed: {}", ev.note);
        for k in &ev.known {
            println!("KNOWN-FINDING: property={} matches {}", prop, k);
        }
        for f in &ev.fails {
            println!("  MISMATCH output={} got={} want={}", f.label, f.got, f.want);
        }
        if !ev.fails.is_empty() {
            println!("VIOLATION property={} replay={}", prop, file);
            return 1;
        }
        println!("  holds");
        return 0;
    }
    let prop = match get("--prop") {
        Some(p) => p,
        None => {
            eprintln!("--prop required");
            return 2;
        }
    };
    if prop == "C11" {
        // profile pair: this (checking-profile) process is the parent
        if !chk {
            // the non-checking binary has nothing to do for C11: it serves as the child
            return 0;
        }
        let child = match get("--child") {
            Some(c) => c,
            None => {
                eprintln!("--prop C11 needs --child <binary built with the other profile>");
                return 2;
            }
        };
        crate::pair::set_child(&child);
        return run_pair_all(e, &args, selftests);
    }
    if !e.props().contains(&prop.as_str()) {
        eprintln!("engine {} does not serve {}", e.name(), prop);
        return 2;
    }
    let tier = match get("--tier").as_deref() {
        Some("thorough") => Tier::Thorough,
        _ => Tier::Quick,
    };
    let cfg = RunCfg {
        prop: prop.clone(),
        tier,
        seed: get("--seed").and_then(|s| s.parse().ok()).unwrap_or(0),
        chk,
        threads: get("--threads").and_then(|s| s.parse().ok()).unwrap_or(16),
        replay_dir: get("--replay-dir").unwrap_or_else(|| format!("/verif/replays/{}", prop)),
        out: get("--out").unwrap_or_else(|| format!("/verif/harness/scratch/{}-{}.json", prop, if chk { "chk" } else { "rel" })),
        kf_path,
        scale: get("--scale").and_then(|s| s.parse().ok()).unwrap_or(1.0),
    };
    let r = run(e, &cfg);
    for l in &r.known_lines {
        println!("{}", l);
    }
    let mut paths = Vec::new();
    for v in &r.violations {
        let p = write_replay(e, &cfg, v);
        println!("VIOLATION property={} replay={}", prop, p);
        println!("  profile={} origin={} case={}", profile_name(), v.origin, e.case_json(&prop, &v.case));
        for f in &v.fails {
            println!("  MISMATCH output={} got={} want={}", f.label, f.got, f.want);
        }
        paths.push(p);
    }
    let mut pj = partial_json(e, &cfg, &r, &paths);
    pj.as_object_mut().unwrap().insert("oracle_selftests".into(), json!(selftests));
    if let Some(parent) = std::path::Path::new(&cfg.out).parent() {
        let _ = std::fs::create_dir_all(parent);
    }
    let _ = std::fs::write(&cfg.out, serde_json::to_string_pretty(&pj).unwrap());
    println!(
        "{} {} {} profile={} evaluations={} distinct_nontrivial={} layouts={} known_hits={} violations={} wall={:.1}s",
        e.name(),
        prop,
        tier.name(),
        profile_name(),
        r.acc.evaluations,
        r.acc.distinct.len(),
        r.acc.layouts.len(),
        r.acc.known.values().sum::<u64>(),
        r.violations.len(),
        r.wall_s
    );
    if !r.violations.is_empty() {
        return 1;
    }
    let missing = pj.get("missing_required_classes").and_then(|m| m.as_array()).map(|a| a.len()).unwrap_or(0);
    if missing > 0 {
        eprintln!("INCONCLUSIVE: required classes never generated: {}", pj["missing_required_classes"]);
        return 2;
    }
    0
}

/// C11: run the profile pair over every generator the engine contributes; one partial evidence file
fn run_pair_all<E: Engine>(e: &E, args: &[String], selftests: u64) -> i32 {
    let get = |k: &str| -> Option<String> { args.iter().position(|a| a == k).and_then(|i| args.get(i + 1).cloned()) };
    let tier = match get("--tier").as_deref() {
        Some("thorough") => Tier::Thorough,
        _ => Tier::Quick,
    };
    let seed: u64 = get("--seed").and_then(|s| s.parse().ok()).unwrap_or(0);
    let out = get("--out").unwrap_or_else(|| "/verif/harness/scratch/C11.json".into());
    let only = get("--gen");
    let mut partials: Vec<Value> = Vec::new();
    let mut rc = 0;
    for g in e.pair_gens() {
        if let Some(o) = &only {
            // one generator or a comma-separated list
            if !o.split(',').any(|x| x == g) {
                continue;
            }
        }
        let pe = crate::pair::PairEngine { inner: e, gen: g.to_string() };
        let cfg = RunCfg {
            prop: "C11".into(),
            tier,
            seed: splitmix(seed ^ str_hash(g)),
            chk: true,
            threads: get("--threads").and_then(|s| s.parse().ok()).unwrap_or(16),
            replay_dir: get("--replay-dir").unwrap_or_else(|| "/verif/replays/C11".into()),
            out: out.clone(),
            kf_path: get("--kf").unwrap_or_else(|| "/verif/known_findings.json".into()),
            scale: get("--scale").and_then(|s| s.parse().ok()).unwrap_or(1.0),
        };
        let r = run(&pe, &cfg);
        for l in &r.known_lines {
            println!("{}", l);
        }
        let mut paths = Vec::new();
        for v in &r.violations {
            let p = write_replay(&pe, &cfg, v);
            println!("VIOLATION property=C11 replay={}", p);
            println!("  generator={} origin={} case={}", g, v.origin, pe.case_json("C11", &v.case));
            for f in &v.fails {
                println!("  MISMATCH output={} got={} want={}", f.label, f.got, f.want);
            }
            paths.push(p);
        }
        println!(
            "{} C11 {} generator={} pairs={} distinct_nontrivial={} known_hits={} violations={} wall={:.1}s",
            e.name(), tier.name(), g, r.acc.evaluations, r.acc.distinct.len(), r.acc.known.values().sum::<u64>(), r.violations.len(), r.wall_s
        );
        if !r.violations.is_empty() {
            rc = 1;
        }
        let mut pj = partial_json(&pe, &cfg, &r, &paths);
        let o = pj.as_object_mut().unwrap();
        o.insert("oracle_selftests".into(), json!(selftests));
        o.insert("pairs_compared".into(), json!(r.acc.evaluations));
        o.insert("generator".into(), json!(g));
        partials.push(pj);
    }
    if let Some(parent) = std::path::Path::new(&out).parent() {
        let _ = std::fs::create_dir_all(parent);
    }
    let _ = std::fs::write(&out, serde_json::to_string_pretty(&json!({"pair_partials": partials})).unwrap());
    rc
}

/// Strategy helper: monotone index mapping (shrinks toward index 0).
pub fn pick(n: usize) -> impl Strategy<Value = usize> {
    (0u32..=0xffff).prop_map(move |i| ((i as u64 * n as u64) >> 16) as usize)
}
