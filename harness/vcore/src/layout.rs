//! Layout descriptors (signedness, width, fractional bits) and the exact
//! range / wrap / clamp arithmetic every oracle uses.

use crate::big::Big;

#[derive(Clone, Copy, PartialEq, Eq, Hash, Debug)]
pub struct L {
    pub signed: bool,
    pub w: u32,
    pub f: u32,
}

pub const WIDTHS: [u32; 5] = [8, 16, 32, 64, 128];
/// number of real layouts: 2 * (9 + 17 + 33 + 65 + 129)
pub const NLAY: usize = 506;
const FAM_OFF: [usize; 6] = [0, 9, 26, 59, 124, 253];

impl L {
    pub const fn new(signed: bool, w: u32, f: u32) -> L {
        L { signed, w, f }
    }
    /// index order: I8F0..I0F8, I16.., I32.., I64.., I128.., then the unsigned families
    pub fn from_idx(i: usize) -> L {
        assert!(i < NLAY);
        let (signed, j) = if i < 253 { (true, i) } else { (false, i - 253) };
        let mut fam = 0;
        while j >= FAM_OFF[fam + 1] {
            fam += 1;
        }
        L { signed, w: WIDTHS[fam], f: (j - FAM_OFF[fam]) as u32 }
    }
    pub fn idx(&self) -> usize {
        let fam = WIDTHS.iter().position(|&w| w == self.w).unwrap();
        (if self.signed { 0 } else { 253 }) + FAM_OFF[fam] + self.f as usize
    }
    pub fn family(&self) -> usize {
        WIDTHS.iter().position(|&w| w == self.w).unwrap() + if self.signed { 0 } else { 5 }
    }
    pub fn name(&self) -> String {
        format!("{}{}F{}", if self.signed { 'I' } else { 'U' }, self.w - self.f, self.f)
    }
    pub fn parse(s: &str) -> Option<L> {
        let signed = match s.as_bytes().first()? {
            b'I' => true,
            b'U' => false,
            _ => return None,
        };
        let (i, f) = s[1..].split_once('F')?;
        let (i, f): (u32, u32) = (i.parse().ok()?, f.parse().ok()?);
        let w = i + f;
        if !WIDTHS.contains(&w) {
            return None;
        }
        Some(L { signed, w, f })
    }
    pub fn int_bits(&self) -> u32 {
        self.w - self.f
    }
    pub fn mask(&self) -> u128 {
        if self.w == 128 {
            u128::MAX
        } else {
            (1u128 << self.w) - 1
        }
    }
    /// raw bit pattern (zero-extended) -> the underlying integer's value
    pub fn val(&self, raw: u128) -> Big {
        let raw = raw & self.mask();
        if self.signed && (raw >> (self.w - 1)) & 1 == 1 {
            // negative
            if self.w == 128 {
                Big::from_i128(raw as i128)
            } else {
                Big::from_i128(raw as i128 - (1i128 << self.w))
            }
        } else {
            Big::from_u128(raw)
        }
    }
    pub fn is_neg(&self, raw: u128) -> bool {
        self.signed && ((raw & self.mask()) >> (self.w - 1)) & 1 == 1
    }
    pub fn lo(&self) -> Big {
        if self.signed {
            Big::pow2(self.w - 1).neg()
        } else {
            Big::zero()
        }
    }
    pub fn hi(&self) -> Big {
        if self.signed {
            Big::pow2(self.w - 1).add_i64(-1)
        } else {
            Big::pow2(self.w).add_i64(-1)
        }
    }
    pub fn raw_min(&self) -> u128 {
        if self.signed {
            1u128 << (self.w - 1)
        } else {
            0
        }
    }
    pub fn raw_max(&self) -> u128 {
        if self.signed {
            self.mask() >> 1
        } else {
            self.mask()
        }
    }
    pub fn fits(&self, r: &Big) -> bool {
        *r >= self.lo() && *r <= self.hi()
    }
    /// r mod 2^w as a raw pattern
    pub fn wrap(&self, r: &Big) -> u128 {
        r.low_u128() & self.mask()
    }
    pub fn clamp(&self, r: &Big) -> u128 {
        if *r < self.lo() {
            self.raw_min()
        } else if *r > self.hi() {
            self.raw_max()
        } else {
            self.wrap(r)
        }
    }
    /// sign-extend a raw pattern to i128 (for printing)
    pub fn sext(&self, raw: u128) -> i128 {
        let raw = raw & self.mask();
        if self.w == 128 {
            raw as i128
        } else if self.is_neg(raw) {
            raw as i128 - (1i128 << self.w)
        } else {
            raw as i128
        }
    }
    /// human-readable approximate value
    pub fn approx(&self, raw: u128) -> f64 {
        self.val(raw).to_f64_approx() / 2f64.powi(self.f as i32)
    }
}

/// Primitive integer kinds (conversion / comparison partners).
#[derive(Clone, Copy, PartialEq, Eq, Hash, Debug)]
pub struct IntK {
    pub signed: bool,
    pub w: u32,
    pub name: &'static str,
}
pub const INTS: [IntK; 12] = [
    IntK { signed: true, w: 8, name: "i8" },
    IntK { signed: true, w: 16, name: "i16" },
    IntK { signed: true, w: 32, name: "i32" },
    IntK { signed: true, w: 64, name: "i64" },
    IntK { signed: true, w: 128, name: "i128" },
    IntK { signed: true, w: 64, name: "isize" },
    IntK { signed: false, w: 8, name: "u8" },
    IntK { signed: false, w: 16, name: "u16" },
    IntK { signed: false, w: 32, name: "u32" },
    IntK { signed: false, w: 64, name: "u64" },
    IntK { signed: false, w: 128, name: "u128" },
    IntK { signed: false, w: 64, name: "usize" },
];
impl IntK {
    pub fn as_l(&self) -> L {
        L { signed: self.signed, w: self.w, f: 0 }
    }
}

pub fn selftest() -> Result<u64, String> {
    for i in 0..NLAY {
        let l = L::from_idx(i);
        if l.idx() != i || L::parse(&l.name()) != Some(l) || l.f > l.w {
            return Err(format!("layout index selftest {}", i));
        }
        if l.val(l.raw_min()) != l.lo() || l.val(l.raw_max()) != l.hi() {
            return Err(format!("layout bounds selftest {}", l.name()));
        }
        if l.wrap(&l.hi().add_i64(1)) != l.raw_min() || l.clamp(&l.hi().add_i64(5)) != l.raw_max() {
            return Err(format!("layout wrap selftest {}", l.name()));
        }
    }
    Ok(NLAY as u64 * 3)
}
