//! Literal oracle shared by the text and Wrapping engines: tokeniser written from
//! the stated grammar and exact rational rounding.

use crate::big::Big;

pub enum Parsed {
    Malformed,
    /// exact rational value: (-1)^neg * num / radix^k
    Value { neg: bool, num: Big, k: u32 },
}

/// tokeniser from the stated grammar: [+-]? digit* ('.' digit*)? with at least one digit
pub fn tokenise(s: &str, radix: u32) -> Parsed {
    let b = s.as_bytes();
    let mut i = 0;
    let mut neg = false;
    if i < b.len() && (b[i] == b'+' || b[i] == b'-') {
        neg = b[i] == b'-';
        i += 1;
    }
    let is_digit = |c: u8| (c as char).is_ascii() && (c as char).to_digit(radix).is_some();
    let int_start = i;
    while i < b.len() && is_digit(b[i]) {
        i += 1;
    }
    let int_digits = &b[int_start..i];
    let mut frac_digits: &[u8] = &[];
    if i < b.len() && b[i] == b'.' {
        i += 1;
        let fs = i;
        while i < b.len() && is_digit(b[i]) {
            i += 1;
        }
        frac_digits = &b[fs..i];
    }
    if i != b.len() || (int_digits.is_empty() && frac_digits.is_empty()) {
        return Parsed::Malformed;
    }
    let mut all = int_digits.to_vec();
    all.extend_from_slice(frac_digits);
    Parsed::Value { neg, num: Big::from_digits(&all, radix), k: frac_digits.len() as u32 }
}

/// RNE(num * 2^f / radix^k), signed
pub fn round_literal(neg: bool, num: &Big, k: u32, radix: u32, f: u32) -> (Big, bool) {
    let den = Big::from_u64(radix as u64).pow(k);
    let (q, rem) = num.shl(f).divrem_trunc(&den);
    let twice = rem.shl(1);
    let r = if twice > den || (twice == den && q.is_odd()) { q.add_i64(1) } else { q };
    let exact = rem.is_zero();
    (if neg { r.neg() } else { r }, exact)
}

