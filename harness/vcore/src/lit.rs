//! Literal oracle shared by the text and Wrapping engines: tokeniser written from
//! the stated grammar and exact rational rounding.

use crate::big::Big;

pub enum Parsed {
    Malformed,
    /// exact rational value: (-1)^neg * num / radix^k
    Value { neg: bool, num: Big, k: u32 },
}

/// tokeniser from the stated grammar: [+-]? digit* ('.' digit*)? with at least one digit
pub fn tokenise(s: &str, radix: u32) -> Parsed {
    let b = s.as_bytes();
    let mut i = 0;
    let mut neg = false;
    if i < b.len() && (b[i] == b'+' || b[i] == b'-') {
        neg = b[i] == b'-';
        i += 1;
    }
    let is_digit = |c: u8| (c as char).is_ascii() && (c as char).to_digit(radix).is_some();
    let int_start = i;
    while i < b.len() && is_digit(b[i]) {
        i += 1;
    }
    let int_digits = &b[int_start..i];
    let mut frac_digits: &[u8] = &[];
    if i < b.len() && b[i] == b'.' {
        i += 1;
        let fs = i;
        while i < b.len() && is_digit(b[i]) {
            i += 1;
        }
        frac_digits = &b[fs..i];
    }
    if i != b.len() || (int_digits.is_empty() && frac_digits.is_empty()) {
        return Parsed::Malformed;
    }
    let mut all = int_digits.to_vec();
    all.extend_from_slice(frac_digits);
    Parsed::Value { neg, num: Big::from_digits(&all, radix), k: frac_digits.len() as u32 }
}

/// RNE(num * 2^f / radix^k), signed
pub fn round_literal(neg: bool, num: &Big, k: u32, radix: u32, f: u32) -> (Big, bool) {
    let den = Big::from_u64(radix as u64).pow(k);
    let (q, rem) = num.shl(f).divrem_trunc(&den);
    let twice = rem.shl(1);
    let r = if twice > den || (twice == den && q.is_odd()) { q.add_i64(1) } else { q };
    let exact = rem.is_zero();
    (if neg { r.neg() } else { r }, exact)
}



/// Decimal digit groups on a limb boundary. A parser that accumulates the fraction digits in groups of `p`
/// digits forms `h * 10^p + l` in `b`-bit limbs; this returns a `p`-digit group value `h` for which
/// `h * 10^p mod 2^b` lies `k * 2^p` below (`below`) or above a multiple of `2^b`, so that adding almost any
/// following group `l` carries (or just does not carry) into the next limb. Uniformly random digits reach such
/// an `h` with probability about `10^p / 2^b`. `h * 10^p = 2^p * (h * 5^p)`, so `h = -+k * inv(5^p) mod 2^(b-p)`.
pub fn limb_carry_group(p: u32, b: u32, k: u128, below: bool) -> Option<u128> {
    let (base, mask) = limb_carry_base(p, b, below)?;
    let h = base.wrapping_mul(k) & mask;
    if h < 10u128.checked_pow(p)? {
        Some(h)
    } else {
        None
    }
}
/// (+-inverse of 5^p modulo 2^(b-p), mask of that modulus)
fn limb_carry_base(p: u32, b: u32, below: bool) -> Option<(u128, u128)> {
    let m = b - p; // modulus 2^m, m <= 128
    let mask = if m >= 128 { u128::MAX } else { (1u128 << m) - 1 };
    let a = 5u128.checked_pow(p)? & mask;
    // inverse of the odd number a modulo 2^128 by Newton iteration (doubles the correct bits each round)
    let mut x = a;
    for _ in 0..7 {
        x = x.wrapping_mul(2u128.wrapping_sub(a.wrapping_mul(x)));
    }
    let inv = x & mask;
    debug_assert!(a.wrapping_mul(inv) & mask == 1);
    Some((if below { inv.wrapping_neg() & mask } else { inv }, mask))
}
/// does the decimal fraction `digits` (ASCII) put a p-digit group on a b-bit limb boundary, i.e. does adding the
/// second group to `first group * 10^p` carry out of (or come within 10^p of) the b-bit limb? (classification only)
pub fn on_limb_boundary(digits: &[u8], p: u32, b: u32) -> bool {
    let p_us = p as usize;
    if digits.len() <= p_us || p > 38 {
        return false;
    }
    let val = |d: &[u8]| d.iter().fold(0u128, |a, c| a.wrapping_mul(10).wrapping_add((c - b'0') as u128));
    let h = val(&digits[..p_us]);
    let mut second: Vec<u8> = digits[p_us..digits.len().min(2 * p_us)].to_vec();
    second.resize(p_us, b'0');
    let l = val(&second);
    let mask = if b >= 128 { u128::MAX } else { (1u128 << b) - 1 };
    let hp = h.wrapping_mul(10u128.pow(p)) & mask;
    let (sum, carry) = hp.overflowing_add(l);
    carry || (b < 128 && sum >> b != 0) || hp <= 10u128.pow(p)
}
pub const LIMB_GROUPS: [(u32, u32); 6] = [(27, 128), (27, 128), (27, 128), (19, 64), (13, 64), (9, 32)];

/// fraction digits `group(h) ++ suffix` from the limb-boundary class; falls back to random digits
pub fn limb_carry_fraction(sel: u128, suffix: &[u8], max_suffix: usize) -> String {
    let (p, b) = LIMB_GROUPS[(sel % 6) as usize];
    let below = (sel >> 3) & 3 != 0;
    // the density of valid groups among k = 1, 2, 3, ... is 10^p / 2^(b-p) (2^-11.3 for 27 digits in 128 bits):
    // scan from a start chosen by the case; k stays far below 10^(p-1) / 2^p, so a following group with a
    // non-zero leading digit always carries
    let mut h = None;
    let kmax = (10u128.pow(p - 1) >> (p + 1)).min(1u128 << 36);
    let k0 = 1 + (sel >> 8) % kmax;
    if let Some((base, mask)) = limb_carry_base(p, b, below) {
        let lim = 10u128.pow(p);
        for t in 0..60_000u128 {
            let c = base.wrapping_mul(k0 + t) & mask;
            if c < lim {
                h = Some(c);
                break;
            }
        }
    }
    let h = h.unwrap_or((sel >> 16) % 10u128.pow(p));
    let mut s = format!("{:0>width$}", h, width = p as usize);
    let n = suffix.len().min(max_suffix).max(1);
    for (i, d) in suffix.iter().take(n).enumerate() {
        let d = (d % 10) as u32;
        // a leading non-zero digit makes the following group large enough to carry
        let d = if i == 0 && d == 0 { 1 + ((sel >> 40) % 9) as u32 } else { d };
        s.push(std::char::from_digit(d, 10).unwrap());
    }
    if suffix.is_empty() {
        s.push(std::char::from_digit(1 + ((sel >> 40) % 9) as u32, 10).unwrap());
    }
    s
}


#[cfg(test)]
mod limb_tests {
    use super::*;
    #[test]
    fn carry_groups_carry() {
        for sel in [0u128, 1, 2, 0x1234_5678_9abc_def0, 77 << 8, 3 | (5 << 8)] {
            for &(p, b) in LIMB_GROUPS.iter() {
                let (base, mask) = limb_carry_base(p, b, true).unwrap();
                let kmax = (10u128.pow(p - 1) >> (p + 1)).min(1u128 << 36);
                let k0 = 1 + (sel >> 8) % kmax;
                let mut found = None;
                for t in 0..60_000u128 {
                    let c = base.wrapping_mul(k0 + t) & mask;
                    if c < 10u128.pow(p) {
                        found = Some(c);
                        break;
                    }
                }
                let h = found.expect("a group is found");
                // h * 10^p mod 2^b + 10^(p-1) >= 2^b
                let hp = if b == 128 { h.wrapping_mul(10u128.pow(p)) } else { h.wrapping_mul(10u128.pow(p)) & ((1u128 << b) - 1) };
                let (sum, carry) = hp.overflowing_add(10u128.pow(p - 1));
                assert!(if b == 128 { carry } else { sum >> b != 0 }, "p={} b={} h={}", p, b, h);
            }
        }
    }
}
