//! Profile-pair differential (C11): the checking-profile binary is the parent,
//! one non-checking-profile child per worker answers "what does this case
//! return in the other profile?" over a pipe, so one proptest closure sees both
//! outcomes and shrinking works across the two profiles.

use crate::out::{Case, Eval, Fail, Out, Outs};
use crate::run::{Budget, Engine, Kf, Tier};
use proptest::strategy::BoxedStrategy;
use serde_json::Value;
use std::cell::RefCell;
use std::io::{BufRead, BufReader, Write};
use std::process::{Child, ChildStdin, ChildStdout, Command, Stdio};
use std::sync::OnceLock;

static CHILD_PATH: OnceLock<String> = OnceLock::new();

struct Conn {
    child: Child,
    stdin: ChildStdin,
    stdout: BufReader<ChildStdout>,
}
impl Drop for Conn {
    fn drop(&mut self) {
        let _ = self.child.kill();
        let _ = self.child.wait();
    }
}
thread_local! {
    static CONN: RefCell<Option<Conn>> = RefCell::new(None);
}

pub fn set_child(path: &str) {
    let _ = CHILD_PATH.set(path.to_string());
}

fn spawn() -> Conn {
    let path = CHILD_PATH.get().expect("pair mode needs --child <binary built with the other profile>");
    let mut child = Command::new(path)
        .args(["--serve", "--expect-profile", "rel"])
        .stdin(Stdio::piped())
        .stdout(Stdio::piped())
        .stderr(Stdio::null())
        .spawn()
        .expect("cannot start the other-profile child");
    let stdin = child.stdin.take().unwrap();
    let stdout = BufReader::new(child.stdout.take().unwrap());
    Conn { child, stdin, stdout }
}

fn outs_to_json(o: &Outs) -> Value {
    Value::Array(o.iter().map(|(l, v)| serde_json::json!([l, v.to_json()])).collect())
}

/// ask the child for the outcome of a case (JSON line protocol)
fn ask(line: &str) -> Option<Vec<(String, Out)>> {
    CONN.with(|c| {
        let mut c = c.borrow_mut();
        for _attempt in 0..2 {
            if c.is_none() {
                *c = Some(spawn());
            }
            let conn = c.as_mut().unwrap();
            let ok = writeln!(conn.stdin, "{}", line).is_ok() && conn.stdin.flush().is_ok();
            let mut resp = String::new();
            if ok && conn.stdout.read_line(&mut resp).map(|n| n > 0).unwrap_or(false) {
                let v: Value = serde_json::from_str(&resp).ok()?;
                let arr = v.as_array()?;
                let mut outs = Vec::new();
                for e in arr {
                    let a = e.as_array()?;
                    outs.push((a[0].as_str()?.to_string(), Out::from_json(&a[1])?));
                }
                return Some(outs);
            }
            // child died (e.g. abort): restart once
            *c = None;
        }
        None
    })
}

/// child side: answer cases until stdin closes
pub fn serve<E: Engine>(e: &E) -> i32 {
    let stdin = std::io::stdin();
    let stdout = std::io::stdout();
    let mut out = stdout.lock();
    for line in stdin.lock().lines() {
        let line = match line {
            Ok(l) => l,
            Err(_) => break,
        };
        let v: Value = match serde_json::from_str(&line) {
            Ok(v) => v,
            Err(_) => {
                let _ = writeln!(out, "[]");
                continue;
            }
        };
        let gen = v.get("prop").and_then(|x| x.as_str()).unwrap_or("").to_string();
        let resp = match e.case_from_json(&gen, &v) {
            Some(c) => outs_to_json(&e.exec_raw(&gen, &c)),
            None => Value::Array(vec![]),
        };
        let _ = writeln!(out, "{}", resp);
        let _ = out.flush();
    }
    0
}

/// how a labelled output may differ between the profiles
#[derive(Clone, Copy, PartialEq, Eq, Debug)]
pub enum PairClass {
    /// checked / saturating / wrapping / overflowing / Result-returning: a panic in one profile only is a violation
    NeverPanic,
    /// no overflow handling: may panic under the checking profile iff the result does not fit (`true` = it does not)
    MayPanicIfOverflow(bool),
    /// the documentation reserves nothing either way (counted, not asserted)
    Unclassified,
}

/// default classification from the output's label and the non-checking profile's `overflowing` sibling
pub fn class_by_label(label: &str, rel: &[(String, Out)]) -> PairClass {
    let plain = label == "plain" || label == "ref" || label.starts_with("ref&") || label.starts_with("refv") || label.starts_with("assign") || label.ends_with(":plain") || label.starts_with("iter:");
    if !plain {
        return PairClass::NeverPanic;
    }
    let sib = match label.rsplit_once(':') {
        // sum / product of the two operands overflow exactly when the operator does
        Some(("iter", _)) => "overflowing".to_string(),
        Some((pre, _)) => format!("{}:overflowing", pre),
        None => "overflowing".to_string(),
    };
    let ovf = rel.iter().find(|(l, _)| *l == sib).map(|(_, o)| matches!(o, Out::F(_, true))).unwrap_or(false);
    PairClass::MayPanicIfOverflow(ovf)
}

pub struct PairEngine<'a, E: Engine> {
    pub inner: &'a E,
    pub gen: String,
}

impl<'a, E: Engine> PairEngine<'a, E> {
    fn exh_stride(&self, tier: Tier, n: u64) -> u64 {
        let cap: u64 = if tier == Tier::Quick { 300_000 } else { 20_000_000 };
        // an odd stride, so that it is coprime to the power-of-two and even periods of the enumerations
        let s = (n + cap - 1) / cap.max(1);
        if s <= 1 { 1 } else { s | 1 }
    }
}

impl<'a, E: Engine> Engine for PairEngine<'a, E> {
    fn name(&self) -> &'static str {
        self.inner.name()
    }
    fn props(&self) -> Vec<&'static str> {
        vec!["C11"]
    }
    fn op_name(&self, _prop: &str, op: u16) -> String {
        self.inner.op_name(&self.gen, op)
    }
    fn op_from_name(&self, _prop: &str, s: &str) -> Option<u16> {
        self.inner.op_from_name(&self.gen, s)
    }
    fn strategy(&self, _prop: &str, stratum: Option<u16>) -> BoxedStrategy<Case> {
        self.inner.strategy(&self.gen, stratum)
    }
    fn budget(&self, _prop: &str, tier: Tier) -> Budget {
        let b = self.inner.budget(&self.gen, tier);
        let (r, s) = match tier {
            Tier::Quick => (150_000, 40),
            Tier::Thorough => (4_000_000, 600),
        };
        Budget { random: r.min(b.random), per_stratum: s.min(b.per_stratum), strata: b.strata }
    }
    // the generator's enumerated sub-space, strided down to at most 300 000 cases in the quick tier (every case of it
    // in the thorough tier up to 20 million)
    fn mini_len(&self, _prop: &str) -> u64 {
        self.inner.mini_len(&self.gen)
    }
    fn mini_case(&self, _prop: &str, i: u64) -> Case {
        self.inner.mini_case(&self.gen, i)
    }
    fn exh_len(&self, _prop: &str, tier: Tier) -> u64 {
        let n = self.inner.exh_len(&self.gen, tier);
        n / self.exh_stride(tier, n).max(1)
    }
    fn exh_case(&self, _prop: &str, tier: Tier, i: u64) -> Case {
        let n = self.inner.exh_len(&self.gen, tier);
        self.inner.exh_case(&self.gen, tier, i * self.exh_stride(tier, n))
    }
    fn exh_desc(&self, _prop: &str, tier: Tier) -> String {
        let n = self.inner.exh_len(&self.gen, tier);
        if n == 0 {
            return String::new();
        }
        format!("every {}th case of the enumerated sub-space of {}: {}", self.exh_stride(tier, n), self.gen, self.inner.exh_desc(&self.gen, tier))
    }
    fn lay_is_layout(&self, _prop: &str) -> bool {
        self.inner.lay_is_layout(&self.gen)
    }
    fn case_json(&self, _prop: &str, c: &Case) -> Value {
        let mut j = self.inner.case_json(&self.gen, c);
        if let Some(o) = j.as_object_mut() {
            o.insert("pair_of".into(), Value::String("C11".into()));
        }
        j
    }
    fn case_from_json(&self, _prop: &str, v: &Value) -> Option<Case> {
        self.inner.case_from_json(&self.gen, v)
    }
    fn rule(&self, _prop: &str) -> String {
        format!("engine {} / generator of {}: each generated case is executed in-process under the checking profile (debug-assertions + overflow-checks) and by a child built without them; per output: both return => identical bits/strings; the non-checking profile panics => the checking one must too; only the checking profile panics => allowed only for outputs without overflow handling (operators, plain methods, plain from_num/to_num) whose result does not fit (arbiter: the non-checking profile's overflowing_* flag, itself decided exactly by the value properties); never for checked/saturating/wrapping/overflowing/Result outputs. Non-trivial: some output panicked in a profile or overflowed.", self.inner.name(), self.gen)
    }
    fn assumptions(&self, _prop: &str) -> Vec<String> {
        vec!["native x86-64 only: no wasm32 target is installed; the crate has no target-dependent code except isize/usize".into()]
    }
    fn selftest(&self) -> Result<u64, String> {
        self.inner.selftest()
    }
    fn exec_raw(&self, _prop: &str, c: &Case) -> Outs {
        self.inner.exec_raw(&self.gen, c)
    }
    fn gen_tag(&self) -> Option<String> {
        Some(self.gen.clone())
    }
    fn eval(&self, _prop: &str, c: &Case, _chk: bool, kf: &Kf) -> Eval {
        let mut ev = Eval::default();
        let mine = self.inner.exec_raw(&self.gen, c);
        let line = self.inner.case_json(&self.gen, c).to_string();
        let theirs = match ask(&line) {
            Some(t) => t,
            None => {
                ev.fails.push(Fail { label: "<child>".into(), got: "no answer from the non-checking-profile child (it aborted?)".into(), want: "an outcome".into() });
                return ev;
            }
        };
        ev.class(match self.gen.as_str() {
            g => leak_class(g),
        });
        for (label, a) in &mine {
            let b = match theirs.iter().find(|(l, _)| l == label) {
                Some((_, b)) => b,
                None => {
                    if !a.is_panic() {
                        // an output only one profile produced (the other unwound earlier in a sequence)
                        continue;
                    }
                    continue;
                }
            };
            let verdict: Result<(), String> = match (a.is_panic(), b.is_panic()) {
                (false, false) => {
                    if a == b {
                        Ok(())
                    } else {
                        Err(format!("the same value as the non-checking profile ({})", b.show()))
                    }
                }
                (true, true) => {
                    ev.class("both-profiles-panic");
                    ev.nontrivial = true;
                    Ok(())
                }
                (false, true) => Err(format!("a panic, as in the non-checking profile ({})", b.show())),
                (true, false) => {
                    ev.nontrivial = true;
                    match self.inner.pair_class(&self.gen, c, label, &theirs) {
                        PairClass::MayPanicIfOverflow(true) => {
                            ev.class("checking-profile-overflow-panic(documented)");
                            Ok(())
                        }
                        PairClass::MayPanicIfOverflow(false) => Err(format!("{} (the result fits: no overflow panic is reserved here)", b.show())),
                        PairClass::NeverPanic => Err(format!("{} (this form never panics)", b.show())),
                        PairClass::Unclassified => {
                            ev.class("unclassified-checking-profile-panic(not asserted)");
                            Ok(())
                        }
                    }
                }
            };
            if let Err(want) = verdict {
                if let Some(id) = self.inner.pair_known(kf, &self.gen, c, label, a, b) {
                    if !ev.known.contains(&id) {
                        ev.known.push(id);
                    }
                    continue;
                }
                ev.fails.push(Fail { label: label.to_string(), got: format!("checking profile: {}", a.show()), want });
            }
            if let (Out::F(_, true), true) = (b, label.contains("overflowing")) {
                ev.class("overflow-flag-set");
                ev.nontrivial = true;
            }
        }
        if ev.note.is_empty() {
            let mut note = String::new();
            for (l, o) in mine.iter().take(4) {
                note.push_str(&format!("{}={} ", l, o.show()));
            }
            ev.note = note;
        }
        ev
    }
}

fn leak_class(g: &str) -> &'static str {
    match g {
        "C01" => "gen:C01",
        "C02" => "gen:C02",
        "C03" => "gen:C03",
        "C04" => "gen:C04",
        "C05" => "gen:C05",
        "C06" => "gen:C06",
        "C07" => "gen:C07",
        "C08" => "gen:C08",
        "C09" => "gen:C09",
        "C10" => "gen:C10",
        "C12" => "gen:C12",
        "C13" => "gen:C13",
        "C14" => "gen:C14",
        "C15" => "gen:C15",
        "C16" => "gen:C16",
        "C17" => "gen:C17",
        "C18" => "gen:C18",
        "C11m" => "gen:misc(shifts,signum,next_power_of_two,sum,product,bits)",
        _ => "gen:other",
    }
}
