//! Observed outcomes of library calls, expected outcomes from the oracles,
//! the universal `Case` record (= replay format) and panic capture.

use serde_json::{json, Value};
use std::panic::{self, AssertUnwindSafe};

#[derive(Clone, PartialEq, Eq, Debug, Hash)]
pub enum Out {
    /// the call unwound; payload message
    P(String),
    /// a single value: raw bits of a fixed-point number or of an integer, masked to its width
    V(u128),
    /// Option of such a value
    O(Option<u128>),
    /// (value, overflow flag)
    F(u128, bool),
    B(bool),
    S(String),
    /// Err(kind/message) of a Result-returning call
    E(String),
    /// raw bytes
    Y(Vec<u8>),
    /// nothing observable (call not available for this layout)
    Na,
}

impl Out {
    pub fn is_panic(&self) -> bool {
        matches!(self, Out::P(_))
    }
    pub fn show(&self) -> String {
        match self {
            Out::P(m) => format!("panic({})", m),
            Out::V(v) => format!("{:#x}", v),
            Out::O(None) => "None".into(),
            Out::O(Some(v)) => format!("Some({:#x})", v),
            Out::F(v, f) => format!("({:#x},{})", v, f),
            Out::B(b) => format!("{}", b),
            Out::S(s) => format!("{:?}", s),
            Out::E(s) => format!("Err({})", s),
            Out::Y(b) => format!("bytes{:02x?}", b),
            Out::Na => "n/a".into(),
        }
    }
    pub fn to_json(&self) -> Value {
        match self {
            Out::P(m) => json!({"P": m}),
            Out::V(v) => json!({"V": format!("{:#x}", v)}),
            Out::O(None) => json!({"O": null}),
            Out::O(Some(v)) => json!({"O": format!("{:#x}", v)}),
            Out::F(v, f) => json!({"F": [format!("{:#x}", v), f]}),
            Out::B(b) => json!({"B": b}),
            Out::S(s) => json!({"S": s}),
            Out::E(s) => json!({"E": s}),
            Out::Y(b) => json!({"Y": b}),
            Out::Na => json!({"Na": null}),
        }
    }
    pub fn from_json(v: &Value) -> Option<Out> {
        let o = v.as_object()?;
        let (k, x) = o.iter().next()?;
        Some(match k.as_str() {
            "P" => Out::P(x.as_str()?.to_string()),
            "V" => Out::V(parse_u128(x.as_str()?)?),
            "O" => match x {
                Value::Null => Out::O(None),
                _ => Out::O(Some(parse_u128(x.as_str()?)?)),
            },
            "F" => {
                let a = x.as_array()?;
                Out::F(parse_u128(a[0].as_str()?)?, a[1].as_bool()?)
            }
            "B" => Out::B(x.as_bool()?),
            "S" => Out::S(x.as_str()?.to_string()),
            "E" => Out::E(x.as_str()?.to_string()),
            "Y" => Out::Y(x.as_array()?.iter().map(|b| b.as_u64().unwrap_or(0) as u8).collect()),
            "Na" => Out::Na,
            _ => return None,
        })
    }
}

pub fn parse_u128(s: &str) -> Option<u128> {
    if let Some(h) = s.strip_prefix("0x") {
        u128::from_str_radix(h, 16).ok()
    } else {
        s.parse().ok()
    }
}

/// What the oracle accepts for one observed output.
#[derive(Clone, Debug)]
pub enum Exp {
    /// exactly this
    Is(Out),
    /// result does not fit and the function has no overflow handling: no listed property
    /// constrains the outcome (the documentation reserves a panic in every profile and only says
    /// that the wrapped value "can be returned"), so nothing is asserted here; the payload is the
    /// wrapped value, kept for reports. That the two profiles agree whenever both return normally
    /// is C11's pair comparison.
    PlainOvf(Out),
    /// must unwind (documented panic, e.g. NaN given to from_num)
    MustPanic,
    /// any value, but no unwinding
    NoPanic,
    /// not asserted (e.g. zero divisor in a non-checked division form)
    Free,
    /// one of several values
    OneOf(Vec<Out>),
    /// an Err of any kind
    AnyErr,
}

impl Exp {
    pub fn accepts(&self, got: &Out, _chk: bool) -> bool {
        match self {
            Exp::Is(o) => got == o,
            Exp::PlainOvf(_) => true,
            Exp::MustPanic => got.is_panic(),
            Exp::NoPanic => !got.is_panic(),
            Exp::Free => true,
            Exp::OneOf(v) => v.iter().any(|o| o == got),
            Exp::AnyErr => matches!(got, Out::E(_)),
        }
    }
    pub fn show(&self) -> String {
        match self {
            Exp::Is(o) => o.show(),
            Exp::PlainOvf(o) => format!("anything (overflow without handling; wrapped value would be {})", o.show()),
            Exp::MustPanic => "a panic".into(),
            Exp::NoPanic => "any value without unwinding".into(),
            Exp::Free => "anything".into(),
            Exp::OneOf(v) => format!("one of [{}]", v.iter().map(|o| o.show()).collect::<Vec<_>>().join(", ")),
            Exp::AnyErr => "Err(_)".into(),
        }
    }
}

/// One generated case. A universal record so that every engine shares the
/// runner, the replay format and the pair protocol. Field use is per engine.
#[derive(Clone, Debug, PartialEq, Eq, Hash, Default)]
pub struct Case {
    pub op: u16,
    pub lay: u16,
    pub lay2: u16,
    pub a: u128,
    pub b: u128,
    pub c: u128,
    pub s: String,
    pub prog: Vec<(u16, u128, u128)>,
}

/// Run a closure calling into the library under test, capturing an unwind.
pub fn cu<F: FnOnce() -> Out>(f: F) -> Out {
    let prev = set_in_lib(true);
    let r = panic::catch_unwind(AssertUnwindSafe(f));
    set_in_lib(prev);
    match r {
        Ok(o) => o,
        Err(e) => {
            let msg = if let Some(s) = e.downcast_ref::<&'static str>() {
                s.to_string()
            } else if let Some(s) = e.downcast_ref::<String>() {
                s.clone()
            } else {
                "<non-string panic payload>".to_string()
            };
            Out::P(msg)
        }
    }
}

/// The environment sets RUST_BACKTRACE=1; a silent hook keeps panics cheap.
thread_local! {
    static IN_LIB: std::cell::Cell<bool> = std::cell::Cell::new(false);
}
fn set_in_lib(v: bool) -> bool {
    IN_LIB.with(|c| c.replace(v))
}

/// The environment sets RUST_BACKTRACE=1; a hook that is silent while a call into the
/// library under test is in progress keeps expected panics cheap. A panic anywhere else is
/// a harness bug and is printed.
pub fn install_silent_panic_hook() {
    if std::env::var_os("VERIF_PANIC_VERBOSE").is_some() {
        return;
    }
    panic::set_hook(Box::new(|info| {
        if !IN_LIB.with(|c| c.get()) {
            eprintln!("HARNESS PANIC (outside a library call): {}", info);
        }
    }));
}

#[derive(Clone, Debug)]
pub struct Fail {
    pub label: String,
    pub got: String,
    pub want: String,
}

/// Result of evaluating one case (library call + oracle).
#[derive(Clone, Debug, Default)]
pub struct Eval {
    pub fails: Vec<Fail>,
    /// ids of known findings matched (excluded from `fails`)
    pub known: Vec<&'static str>,
    pub nontrivial: bool,
    pub classes: Vec<&'static str>,
    /// case was outside the property's domain (guard band etc.); counted, not evaluated
    pub skipped: bool,
    /// short description of what was observed, for samples
    pub note: String,
    /// targeted search: how close the observed result is to violating the property (1.0 = at the stated bound);
    /// 0.0 when the engine defines no score for the case
    pub score: f64,
}

impl Eval {
    pub fn class(&mut self, c: &'static str) {
        if !self.classes.contains(&c) {
            self.classes.push(c);
        }
    }
}

/// Expectation for one of the five forms of an operation whose exact (raw-scale,
/// integer) result is `r` in destination layout `l`.
/// `form` is "plain" | "checked" | "saturating" | "wrapping" | "overflowing".
pub fn form_exp(l: crate::layout::L, form: &str, r: &crate::big::Big) -> Exp {
    let fits = l.fits(r);
    let wr = l.wrap(r);
    match form {
        "checked" => Exp::Is(Out::O(if fits { Some(wr) } else { None })),
        "saturating" => Exp::Is(Out::V(l.clamp(r))),
        "wrapping" | "Wrapping" => Exp::Is(Out::V(wr)),
        "overflowing" => Exp::Is(Out::F(wr, !fits)),
        // decided by the types alone (az::StaticCast): None is always allowed; Some(v) only with the exact, representable value
        "static" => {
            if fits {
                Exp::OneOf(vec![Out::O(None), Out::O(Some(wr))])
            } else {
                Exp::Is(Out::O(None))
            }
        }
        _ => {
            if fits {
                Exp::Is(Out::V(wr))
            } else {
                Exp::PlainOvf(Out::V(wr))
            }
        }
    }
}

pub type Outs = Vec<(&'static str, Out)>;

fn panic_msg(e: Box<dyn std::any::Any + Send>) -> String {
    if let Some(s) = e.downcast_ref::<&'static str>() {
        s.to_string()
    } else if let Some(s) = e.downcast_ref::<String>() {
        s.clone()
    } else {
        "<non-string panic payload>".to_string()
    }
}

/// Run a sequence of library calls written with `step!`, capturing an unwind of
/// each call separately without instantiating a closure per call: `f(start, outs)`
/// performs steps `start..`; a step first pushes `(label, Na)` and then overwrites it
/// with the value, so after an unwind the last element names the call that panicked.
pub fn drive(f: &mut dyn FnMut(usize, &mut Outs)) -> Outs {
    let mut outs: Outs = Vec::with_capacity(24);
    loop {
        let start = outs.len();
        let prev = set_in_lib(true);
        let r = panic::catch_unwind(AssertUnwindSafe(|| f(start, &mut outs)));
        set_in_lib(prev);
        match r {
            Ok(()) => return outs,
            Err(e) => {
                let msg = panic_msg(e);
                match outs.last_mut() {
                    Some(last) if outs_len_gt(start, last) => last.1 = Out::P(msg),
                    _ => {
                        // unwound before any step was entered: report and stop
                        outs.push(("<setup>", Out::P(msg)));
                        return outs;
                    }
                }
                if outs.len() == start {
                    // defensive: no progress
                    return outs;
                }
            }
        }
    }
}
#[inline]
fn outs_len_gt(_start: usize, last: &(&'static str, Out)) -> bool {
    matches!(last.1, Out::Na)
}

/// One library call inside a `drive`n sequence.
#[macro_export]
macro_rules! step {
    ($start:ident, $outs:ident, $k:expr, $label:expr, $e:expr) => {
        if $start <= $k {
            $outs.push(($label, $crate::Out::Na));
            let v = $e;
            $outs.last_mut().unwrap().1 = v;
        }
    };
}
