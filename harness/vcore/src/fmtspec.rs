//! Run-time selectable format specifications (flags are compile-time in Rust
//! format strings, so every combination is a generated literal, instantiated
//! once for the `Via` adapter) and the reference padding model.

use crate::fmt_table;
use std::fmt;

/// Adapter: formats by calling a closure with the live `Formatter`, so the flag
/// table is compiled once and not per fixed-point type.
pub struct Via<'a>(pub &'a dyn Fn(&mut fmt::Formatter<'_>) -> fmt::Result);
impl<'a> fmt::Display for Via<'a> {
    fn fmt(&self, f: &mut fmt::Formatter<'_>) -> fmt::Result {
        (self.0)(f)
    }
}

/// the same for `Debug` (needed for the `{:x?}` / `{:X?}` conversions, which exist for Debug only)
pub struct ViaDbg<'a>(pub &'a dyn Fn(&mut fmt::Formatter<'_>) -> fmt::Result);
impl<'a> fmt::Debug for ViaDbg<'a> {
    fn fmt(&self, f: &mut fmt::Formatter<'_>) -> fmt::Result {
        (self.0)(f)
    }
}
/// `{:x?}` / `{:X?}` with the sign / `#` / `0` flags of `spec.combo % 8`, its width and precision
pub fn render_dbghex(spec: Spec, upper: bool, f: &dyn Fn(&mut fmt::Formatter<'_>) -> fmt::Result) -> Result<String, fmt::Error> {
    fmt_table::render_dbghex(&ViaDbg(f), upper, spec.combo % 8, spec.width, spec.prec)
}

#[derive(Clone, Copy, Debug, PartialEq, Eq)]
pub struct Spec {
    pub combo: usize,
    pub width: Option<usize>,
    pub prec: Option<usize>,
}
pub const NCOMBO: usize = fmt_table::COMBOS.len();

impl Spec {
    pub fn pack(&self) -> u128 {
        let mut v = self.combo as u128 & 0xff;
        if let Some(w) = self.width {
            v |= 1 << 8 | (w as u128 & 0xffff) << 16;
        }
        if let Some(p) = self.prec {
            v |= 1 << 9 | (p as u128 & 0xffff) << 32;
        }
        v
    }
    pub fn unpack(v: u128) -> Spec {
        Spec {
            combo: (v & 0xff) as usize % NCOMBO,
            width: if v >> 8 & 1 == 1 { Some((v >> 16 & 0xffff) as usize) } else { None },
            prec: if v >> 9 & 1 == 1 { Some((v >> 32 & 0xffff) as usize) } else { None },
        }
    }
    pub fn plain(&self) -> Spec {
        Spec { combo: 0, width: None, prec: self.prec }
    }
    pub fn describe(&self) -> String {
        let (fill, al, plus, alt, zero) = fmt_table::COMBOS[self.combo];
        format!(
            "{{:{}{}{}{}{}{}{}}}",
            fill.map(|c| c.to_string()).unwrap_or_default(),
            al.map(|c| c.to_string()).unwrap_or_default(),
            if plus { "+" } else { "" },
            if alt { "#" } else { "" },
            if zero { "0" } else { "" },
            self.width.map(|w| w.to_string()).unwrap_or_default(),
            self.prec.map(|p| format!(".{}", p)).unwrap_or_default()
        )
    }
}

pub fn render(spec: Spec, f: &dyn Fn(&mut fmt::Formatter<'_>) -> fmt::Result) -> Result<String, fmt::Error> {
    fmt_table::render(&Via(f), spec.combo, spec.width, spec.prec)
}

/// Reference model of what flags may do: given the output without flags (same
/// precision) of a number, `prefix` = radix prefix for `#` ("" for decimal).
/// Written from std::fmt's documented rules for numeric types.
pub fn ref_pad(plain: &str, spec: Spec, prefix: &str) -> String {
    let (fill, al, plus, alt, zero) = fmt_table::COMBOS[spec.combo];
    let (sign, digits) = match plain.strip_prefix('-') {
        Some(d) => ("-", d),
        None => (if plus { "+" } else { "" }, plain),
    };
    let pre = if alt { prefix } else { "" };
    let len = sign.chars().count() + pre.chars().count() + digits.chars().count();
    let pad = spec.width.map(|w| w.saturating_sub(len)).unwrap_or(0);
    let fillc = fill.unwrap_or(' ');
    let rep = |c: char, n: usize| -> String { std::iter::repeat(c).take(n).collect() };
    if zero {
        format!("{}{}{}{}", sign, pre, rep('0', pad), digits)
    } else {
        let (l, r) = match al {
            Some('<') => (0, pad),
            Some('^') => (pad / 2, pad - pad / 2),
            _ => (pad, 0),
        };
        format!("{}{}{}{}{}", rep(fillc, l), sign, pre, digits, rep(fillc, r))
    }
}

pub fn selftest() -> Result<u64, String> {
    // the reference padding model against std's own integer formatting
    let mut n = 0;
    for combo in 0..NCOMBO {
        for &w in &[None, Some(0usize), Some(3), Some(9)] {
            for &v in &[0i64, 7, -7, 255, -300] {
                let spec = Spec { combo, width: w, prec: None };
                for (radix, prefix) in [(10, ""), (16, "0x"), (2, "0b")] {
                    if radix != 10 && v < 0 {
                        continue;
                    }
                    let got = match radix {
                        10 => fmt_table::render(&v, combo, w, None),
                        16 => fmt_table::render(&Via(&|f| fmt::LowerHex::fmt(&v, f)), combo, w, None),
                        _ => fmt_table::render(&Via(&|f| fmt::Binary::fmt(&v, f)), combo, w, None),
                    }
                    .map_err(|e| e.to_string())?;
                    let plain = match radix {
                        10 => format!("{}", v),
                        16 => format!("{:x}", v),
                        _ => format!("{:b}", v),
                    };
                    let want = ref_pad(&plain, spec, prefix);
                    if got != want {
                        return Err(format!("ref_pad selftest {} v={} radix {}: std {:?} model {:?}", spec.describe(), v, radix, got, want));
                    }
                    n += 1;
                }
            }
        }
    }
    Ok(n)
}
