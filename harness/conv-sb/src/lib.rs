//! conv engine, part sb: single-layout operations (a separate crate only so that it compiles in parallel).
include!("../../shared/conv_forms.rs");
include!("../../shared/conv_single.rs");

pub fn run(st: usize, op: u16, lay_idx: u16, kind: usize, a: u128, b: u128, outs: &mut Outs) {
    lay::with_layout_sb!(lay_idx as usize, F => run_single::<F>(st, op, kind, a, b, outs))
}
