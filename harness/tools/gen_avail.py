#!/usr/bin/env python3
"""Generates harness/avail: conversions that must NOT compile (unsound From / LossyFrom at distance 1 from the
soundness boundary), each in its own function on known lines, plus sound control conversions that must compile.
Deterministic, no randomness."""
import json
W=[8,16,32,64,128]
def ty(signed,w,f): return f"Fixed{'I' if signed else 'U'}{w}<U{f}>"
def nm(signed,w,f): return f"{'I' if signed else 'U'}{w-f}F{f}"
items=[]  # (kind, expect_error, code, description)
def add(expect, code, desc): items.append((expect, code, desc))
def fs_list(w): return sorted(set([0,1,w//2,w-1,w]))
for ss in (True,False):
  for ws in W:
    for ds in (True,False):
      for wd in W:
        adj=1 if (not ss and ds) else 0
        for fs in fs_list(ws):
            ints=ws-fs
            S=ty(ss,ws,fs)
            if ss and not ds:
                # signed -> unsigned: never provided
                if fs in (0,ws//2):
                    fd=min(wd,fs)
                    add(True,f"let _ = <{ty(ds,wd,fd)} as From<{S}>>::from(<{S}>::from_bits(0));",f"From {nm(ss,ws,fs)} -> {nm(ds,wd,fd)}: signed to unsigned")
                    add(True,f"let _ = <{ty(ds,wd,0)} as LossyFrom<{S}>>::lossy_from(<{S}>::from_bits(0));",f"LossyFrom {nm(ss,ws,fs)} -> {nm(ds,wd,0)}: signed to unsigned")
                continue
            hi=wd-adj-ints   # largest sound destination fraction
            # From: strictly wider family only
            if wd>ws:
                if hi>=fs:
                    # sound controls at the tight ends
                    add(False,f"let _ = <{ty(ds,wd,hi)} as From<{S}>>::from(<{S}>::from_bits(0));",f"From {nm(ss,ws,fs)} -> {nm(ds,wd,hi)}: tight integer bits (sound)")
                    add(False,f"let _ = <{ty(ds,wd,fs)} as From<{S}>>::from(<{S}>::from_bits(0));",f"From {nm(ss,ws,fs)} -> {nm(ds,wd,fs)}: tight fraction bits (sound)")
                if 0<=hi+1<=wd and hi+1>=fs:
                    add(True,f"let _ = <{ty(ds,wd,hi+1)} as From<{S}>>::from(<{S}>::from_bits(0));",f"From {nm(ss,ws,fs)} -> {nm(ds,wd,hi+1)}: one integer bit short")
                if fs-1>=0 and fs-1<=hi:
                    add(True,f"let _ = <{ty(ds,wd,fs-1)} as From<{S}>>::from(<{S}>::from_bits(0));",f"From {nm(ss,ws,fs)} -> {nm(ds,wd,fs-1)}: one fraction bit lost")
            # LossyFrom: every family pair
            if hi>=0:
                add(False,f"let _ = <{ty(ds,wd,hi)} as LossyFrom<{S}>>::lossy_from(<{S}>::from_bits(0));",f"LossyFrom {nm(ss,ws,fs)} -> {nm(ds,wd,hi)}: tight integer bits (sound)")
            if 0<=hi+1<=wd:
                add(True,f"let _ = <{ty(ds,wd,hi+1)} as LossyFrom<{S}>>::lossy_from(<{S}>::from_bits(0));",f"LossyFrom {nm(ss,ws,fs)} -> {nm(ds,wd,hi+1)}: one integer bit short")
# integers -> fixed
for ss in (True,False):
  for bs in W:
    it=f"{'i' if ss else 'u'}{bs}"
    for ds in (True,False):
      if ss and not ds: continue
      for wd in W:
        if wd<bs: continue
        adj=1 if (not ss and ds) else 0
        hi=wd-adj-bs
        if hi>=0 and (wd>bs or hi==0) and not (wd==bs and adj):
            add(False,f"let _ = <{ty(ds,wd,hi)} as From<{it}>>::from(0);",f"From {it} -> {nm(ds,wd,hi)}: tight (sound)")
        if 0<=hi+1<=wd:
            add(True,f"let _ = <{ty(ds,wd,hi+1)} as From<{it}>>::from(0);",f"From {it} -> {nm(ds,wd,hi+1)}: one integer bit short")
            add(True,f"let _ = <{ty(ds,wd,hi+1)} as LossyFrom<{it}>>::lossy_from(0);",f"LossyFrom {it} -> {nm(ds,wd,hi+1)}: one integer bit short")
    # signed int -> unsigned fixed
    if ss:
        add(True,f"let _ = <{ty(False,128,0)} as From<{it}>>::from(0);",f"From {it} -> U128F0: signed to unsigned")
# bool
for ds in (True,False):
  for wd in W:
    adj=1 if ds else 0
    add(False,f"let _ = <{ty(ds,wd,wd-adj-1)} as From<bool>>::from(true);",f"From bool -> {nm(ds,wd,wd-adj-1)}: one integer bit (sound)")
    add(True,f"let _ = <{ty(ds,wd,wd-adj)} as From<bool>>::from(true);",f"From bool -> {nm(ds,wd,wd-adj)}: no integer bit")
# fixed -> integers
for ss in (True,False):
  for ws in W:
    for ds in (True,False):
      if ss and not ds: continue
      for bd in W:
        it=f"{'i' if ds else 'u'}{bd}"
        adj=1 if (not ss and ds) else 0
        if bd>=ws+adj:
            add(False,f"let _ = <{it} as From<{ty(ss,ws,0)}>>::from(<{ty(ss,ws,0)}>::from_bits(0));",f"From {nm(ss,ws,0)} -> {it} (sound)")
            add(True,f"let _ = <{it} as From<{ty(ss,ws,1)}>>::from(<{ty(ss,ws,1)}>::from_bits(0));",f"From {nm(ss,ws,1)} -> {it}: fraction bit lost")
        # LossyFrom: int bits of the source must fit
        fs=ws-(bd-adj)   # tight: ints == bd-adj
        if 0<=fs<=ws:
            add(False,f"let _ = <{it} as LossyFrom<{ty(ss,ws,fs)}>>::lossy_from(<{ty(ss,ws,fs)}>::from_bits(0));",f"LossyFrom {nm(ss,ws,fs)} -> {it}: tight (sound)")
        if 0<=fs-1<=ws:
            add(True,f"let _ = <{it} as LossyFrom<{ty(ss,ws,fs-1)}>>::lossy_from(<{ty(ss,ws,fs-1)}>::from_bits(0));",f"LossyFrom {nm(ss,ws,fs-1)} -> {it}: one integer bit short")
# fixed -> floats: lossless From only for narrow families
for ss in (True,False):
    for ws,fl,ok in ((8,"f32",True),(16,"f32",True),(32,"f32",False),(32,"f64",True),(64,"f64",False),(128,"f64",False)):
        S=ty(ss,ws,ws//2)
        add(not ok,f"let _ = <{fl} as From<{S}>>::from(<{S}>::from_bits(0));",f"From {nm(ss,ws,ws//2)} -> {fl}: {'lossless (sound)' if ok else 'would lose precision'}")
src=["// @generated by tools/gen_avail.py — do not edit\n",
"#![allow(unused_imports, clippy::all)]\n",
"use substrate_fixed::traits::LossyFrom;\nuse substrate_fixed::types::extra::*;\nuse substrate_fixed::*;\n\n"]
line=sum(x.count("\n") for x in src)+1
table=[]
for i,(expect,code,desc) in enumerate(items):
    start=line
    src.append(f"pub fn c{i}() {{\n    {code}\n}}\n")
    line+=3
    table.append({"fn":f"c{i}","first_line":start,"last_line":start+2,"must_fail":expect,"what":desc,"code":code})
open("avail/src/lib.rs","w").write("".join(src))
json.dump(table,open("avail/table.json","w"),indent=0)
open("avail/Cargo.toml","w").write('''[package]
name = "avail"
version = "0.1.0"
edition = "2021"

# Not a member of the harness workspace: this crate is SUPPOSED to fail to compile
# (every function marked must_fail in table.json has to be rejected by the trait solver).
[workspace]

[dependencies]
substrate-fixed = { path = "/repo", features = ["std"] }
''')
print(len(items), sum(1 for x in items if x[0]), sum(1 for x in items if not x[0]))
