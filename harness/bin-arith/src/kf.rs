//! Known-finding predicates of the arith engine. Each recognises exactly one
//! failure signature; only predicates named by an `open` entry of
//! /verif/known_findings.json are active.

use crate::Exact;
use vcore::run::Kf;
use vcore::{Out, L};

#[allow(clippy::too_many_arguments, unused_variables)]
pub fn matches(kf: &Kf, prop: &str, l: L, op: u16, a: u128, b: u128, label: &str, got: &Out, ex: &Exact, chk: bool) -> Option<&'static str> {
    None
}
