//! Known-finding predicates of the arith engine. Each recognises exactly one
//! failure signature — the trigger region of the defect AND the specific wrong
//! answer the defective algorithm produces — so any other wrong answer, or the
//! same symptom outside the region, is still a violation. Only predicates
//! named by an `open` entry of /verif/known_findings.json are active.

use crate::ops::*;
use crate::{int_l, Exact};
use vcore::run::Kf;
use vcore::{Big, Out, L};

pub const EUCLID_TRUNC: &str = "div_euclid_via_overflowing_truncated_quotient";
const FORMS: [&str; 4] = ["checked", "saturating", "wrapping", "overflowing"];
pub const EUCLID_UNIT: &str = "div_euclid_correction_skipped_when_unit_unrepresentable";

/// Model of the library's div_euclid family (D6): Euclidean quotient derived from the
/// *fixed-point* truncated quotient `a / b` (which overflows/wraps although q fits) and a
/// `+-1` correction that is skipped when 1 is not representable.
struct EuclidModel {
    region_trunc: bool,
    region_unit: bool,
    /// plain forms convert +1 with from_num(1) (panics under the checking profile when 1 is unrepresentable)
    region_plain_unit: bool,
    checked: Option<u128>,
    saturating: u128,
    wrapping: u128,
    flag: bool,
    plain_rel: u128,
}

fn euclid_model(l: L, op: u16, a: u128, b: u128) -> Option<EuclidModel> {
    let f = l.f;
    let av = l.val(a);
    let (bfull, t) = if op == DIV_EUCLID {
        let bv = l.val(b);
        if bv.is_zero() {
            return None;
        }
        (bv.clone(), av.shl(f).div_trunc(&bv))
    } else {
        let n = int_l(l).val(b);
        if n.is_zero() {
            return None;
        }
        (n.shl(f), av.div_trunc(&n))
    };
    let t_fits = l.fits(&t);
    let q0 = l.val(l.wrap(&t));
    let q1 = q0.shr_trunc(f).shl(f); // round_to_zero is exact (decided by C06)
    let corr = l.signed && av.rem_trunc(&bfull).is_neg();
    let unit = Big::pow2(f);
    let unit_ok = l.fits(&unit);
    let step = if bfull.is_pos() { unit.neg() } else { unit };
    let step_ok = l.fits(&step);
    let (wrapping, flag, checked);
    if corr {
        if !step_ok {
            wrapping = l.wrap(&q1);
            flag = true;
            checked = None;
        } else {
            let s = &q1 + &step;
            wrapping = l.wrap(&s);
            flag = !t_fits || !l.fits(&s);
            checked = if t_fits && l.fits(&s) { Some(l.wrap(&s)) } else { None };
        }
    } else {
        wrapping = l.wrap(&q1);
        flag = !t_fits;
        checked = if t_fits { Some(l.wrap(&q1)) } else { None };
    }
    let saturating = match checked {
        Some(v) => v,
        None => {
            if av.is_pos() == bfull.is_pos() {
                l.raw_max()
            } else {
                l.raw_min()
            }
        }
    };
    let plain_rel = if corr { l.wrap(&(&q1 + &step)) } else { l.wrap(&q1) };
    Some(EuclidModel {
        region_trunc: !t_fits,
        region_unit: t_fits && corr && !step_ok,
        region_plain_unit: t_fits && corr && !unit_ok,
        checked,
        saturating,
        wrapping,
        flag,
        plain_rel,
    })
}

#[allow(clippy::too_many_arguments)]
pub fn matches(kf: &Kf, prop: &str, l: L, op: u16, a: u128, b: u128, label: &str, got: &Out, _ex: &Exact, _chk: bool) -> Option<&'static str> {
    if (prop == "C07" || prop == "C18") && (op == DIV_EUCLID || op == DIV_EUCLID_INT) {
        let m = euclid_model(l, op, a, b)?;
        let id = if m.region_trunc {
            EUCLID_TRUNC
        } else if m.region_unit || (m.region_plain_unit && !FORMS.contains(&label)) {
            EUCLID_UNIT
        } else {
            return None;
        };
        if !kf.is_active(id) {
            return None;
        }
        let same = match label {
            "checked" => *got == Out::O(m.checked),
            "saturating" => *got == Out::V(m.saturating),
            "wrapping" => *got == Out::V(m.wrapping),
            "overflowing" => *got == Out::F(m.wrapping, m.flag),
            // the plain form panics on the intermediate overflow under the checking profile
            _ => *got == Out::V(m.plain_rel) || got.is_panic(),
        };
        if same {
            return Some(id);
        }
    }
    None
}
