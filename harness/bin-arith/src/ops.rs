//! Calls into the library under test: every form of every arithmetic /
//! rounding operation, each under its own `catch_unwind`.

use lay::VF;
use substrate_fixed::traits::{FixedSigned, FixedUnsigned};
use vcore::{cu, Out};

pub const ADD: u16 = 0;
pub const SUB: u16 = 1;
pub const MUL: u16 = 2;
pub const DIV: u16 = 3;
pub const REM: u16 = 4;
pub const DIV_EUCLID: u16 = 5;
pub const REM_EUCLID: u16 = 6;
pub const MUL_INT: u16 = 7;
pub const DIV_INT: u16 = 8;
pub const REM_INT: u16 = 9;
pub const DIV_EUCLID_INT: u16 = 10;
pub const REM_EUCLID_INT: u16 = 11;
pub const NEG: u16 = 12;
pub const ABS: u16 = 13;
pub const CEIL: u16 = 14;
pub const FLOOR: u16 = 15;
pub const ROUND: u16 = 16;
pub const ROUND_TE: u16 = 17;
pub const ROUND_TO_ZERO: u16 = 18;
pub const INT: u16 = 19;
pub const NOPS: u16 = 20;

pub const OP_NAMES: [&str; NOPS as usize] = [
    "add", "sub", "mul", "div", "rem", "div_euclid", "rem_euclid", "mul_int", "div_int", "rem_int", "div_euclid_int",
    "rem_euclid_int", "neg", "abs", "ceil", "floor", "round", "round_ties_to_even", "round_to_zero", "int_frac",
];

pub fn is_int_rhs(op: u16) -> bool {
    (MUL_INT..=REM_EUCLID_INT).contains(&op)
}
pub fn is_unary(op: u16) -> bool {
    op >= NEG
}

pub type Outs = Vec<(&'static str, Out)>;

#[inline]
fn v<F: VF>(x: F) -> Out {
    Out::V(x.raw())
}
#[inline]
fn o<F: VF>(x: Option<F>) -> Out {
    Out::O(x.map(|y| y.raw()))
}
#[inline]
fn fl<F: VF>(x: (F, bool)) -> Out {
    Out::F(x.0.raw(), x.1)
}

fn ref_forms<F: VF>(outs: &mut Outs, a: F, b: F, op: u8) {
    outs.push(("ref&&", cu(|| v(F::ref_op(a, b, op, 0)))));
    outs.push(("ref&v", cu(|| v(F::ref_op(a, b, op, 1)))));
    outs.push(("refv&", cu(|| v(F::ref_op(a, b, op, 2)))));
    outs.push(("assign", cu(|| v(F::ref_op(a, b, op, 3)))));
    outs.push(("assign&", cu(|| v(F::ref_op(a, b, op, 4)))));
}
fn ref_forms_int<F: VF>(outs: &mut Outs, a: F, n: F::Bits, op: u8)
where
    F::Bits: Copy,
{
    outs.push(("ref&&", cu(|| v(F::ref_op_int(a, n, op, 0)))));
    outs.push(("ref&v", cu(|| v(F::ref_op_int(a, n, op, 1)))));
    outs.push(("refv&", cu(|| v(F::ref_op_int(a, n, op, 2)))));
    outs.push(("assign", cu(|| v(F::ref_op_int(a, n, op, 3)))));
    outs.push(("assign&", cu(|| v(F::ref_op_int(a, n, op, 4)))));
}

#[allow(deprecated)]
pub fn exec_common<F: VF>(op: u16, ar: u128, br: u128) -> Outs
where
    F::Bits: Copy,
{
    let a = F::from_raw(ar);
    let b = F::from_raw(br);
    let n = F::bits_from_raw(br);
    let mut outs: Outs = Vec::with_capacity(10);
    match op {
        ADD => {
            outs.push(("checked", cu(|| o(a.checked_add(b)))));
            outs.push(("saturating", cu(|| v(a.saturating_add(b)))));
            outs.push(("wrapping", cu(|| v(a.wrapping_add(b)))));
            outs.push(("overflowing", cu(|| fl(a.overflowing_add(b)))));
            outs.push(("plain", cu(|| v(a + b))));
            ref_forms(&mut outs, a, b, 0);
        }
        SUB => {
            outs.push(("checked", cu(|| o(a.checked_sub(b)))));
            outs.push(("saturating", cu(|| v(a.saturating_sub(b)))));
            outs.push(("wrapping", cu(|| v(a.wrapping_sub(b)))));
            outs.push(("overflowing", cu(|| fl(a.overflowing_sub(b)))));
            outs.push(("plain", cu(|| v(a - b))));
            ref_forms(&mut outs, a, b, 1);
        }
        MUL => {
            outs.push(("checked", cu(|| o(a.checked_mul(b)))));
            outs.push(("saturating", cu(|| v(a.saturating_mul(b)))));
            outs.push(("wrapping", cu(|| v(a.wrapping_mul(b)))));
            outs.push(("overflowing", cu(|| fl(a.overflowing_mul(b)))));
            outs.push(("plain", cu(|| v(a * b))));
            ref_forms(&mut outs, a, b, 2);
        }
        DIV => {
            outs.push(("checked", cu(|| o(a.checked_div(b)))));
            outs.push(("saturating", cu(|| v(a.saturating_div(b)))));
            outs.push(("wrapping", cu(|| v(a.wrapping_div(b)))));
            outs.push(("overflowing", cu(|| fl(a.overflowing_div(b)))));
            outs.push(("plain", cu(|| v(a / b))));
            ref_forms(&mut outs, a, b, 3);
        }
        REM => {
            outs.push(("checked", cu(|| o(a.checked_rem(b)))));
            outs.push(("plain", cu(|| v(a % b))));
            ref_forms(&mut outs, a, b, 4);
        }
        DIV_EUCLID => {
            outs.push(("checked", cu(|| o(a.checked_div_euclid(b)))));
            outs.push(("saturating", cu(|| v(a.saturating_div_euclid(b)))));
            outs.push(("wrapping", cu(|| v(a.wrapping_div_euclid(b)))));
            outs.push(("overflowing", cu(|| fl(a.overflowing_div_euclid(b)))));
            outs.push(("plain", cu(|| v(a.div_euclid(b)))));
        }
        REM_EUCLID => {
            outs.push(("checked", cu(|| o(a.checked_rem_euclid(b)))));
            outs.push(("plain", cu(|| v(a.rem_euclid(b)))));
        }
        MUL_INT => {
            outs.push(("checked", cu(|| o(a.checked_mul_int(n)))));
            outs.push(("saturating", cu(|| v(a.saturating_mul_int(n)))));
            outs.push(("wrapping", cu(|| v(a.wrapping_mul_int(n)))));
            outs.push(("overflowing", cu(|| fl(a.overflowing_mul_int(n)))));
            outs.push(("plain", cu(|| v(a * n))));
            ref_forms_int(&mut outs, a, n, 2);
        }
        DIV_INT => {
            outs.push(("checked", cu(|| o(a.checked_div_int(n)))));
            outs.push(("wrapping", cu(|| v(a.wrapping_div_int(n)))));
            outs.push(("overflowing", cu(|| fl(a.overflowing_div_int(n)))));
            outs.push(("plain", cu(|| v(a / n))));
            ref_forms_int(&mut outs, a, n, 3);
        }
        REM_INT => {
            outs.push(("checked", cu(|| o(a.checked_rem_int(n)))));
            outs.push(("wrapping", cu(|| v(a.wrapping_rem_int(n)))));
            outs.push(("overflowing", cu(|| fl(a.overflowing_rem_int(n)))));
            outs.push(("plain", cu(|| v(a % n))));
            ref_forms_int(&mut outs, a, n, 4);
        }
        DIV_EUCLID_INT => {
            outs.push(("checked", cu(|| o(a.checked_div_euclid_int(n)))));
            outs.push(("wrapping", cu(|| v(a.wrapping_div_euclid_int(n)))));
            outs.push(("overflowing", cu(|| fl(a.overflowing_div_euclid_int(n)))));
            outs.push(("plain", cu(|| v(a.div_euclid_int(n)))));
        }
        REM_EUCLID_INT => {
            outs.push(("checked", cu(|| o(a.checked_rem_euclid_int(n)))));
            outs.push(("wrapping", cu(|| v(a.wrapping_rem_euclid_int(n)))));
            outs.push(("overflowing", cu(|| fl(a.overflowing_rem_euclid_int(n)))));
            outs.push(("plain", cu(|| v(a.rem_euclid_int(n)))));
        }
        NEG => {
            outs.push(("checked", cu(|| o(a.checked_neg()))));
            outs.push(("saturating", cu(|| v(a.saturating_neg()))));
            outs.push(("wrapping", cu(|| v(a.wrapping_neg()))));
            outs.push(("overflowing", cu(|| fl(a.overflowing_neg()))));
        }
        CEIL => {
            outs.push(("checked", cu(|| o(a.checked_ceil()))));
            outs.push(("saturating", cu(|| v(a.saturating_ceil()))));
            outs.push(("wrapping", cu(|| v(a.wrapping_ceil()))));
            outs.push(("overflowing", cu(|| fl(a.overflowing_ceil()))));
            outs.push(("plain", cu(|| v(a.ceil()))));
        }
        FLOOR => {
            outs.push(("checked", cu(|| o(a.checked_floor()))));
            outs.push(("saturating", cu(|| v(a.saturating_floor()))));
            outs.push(("wrapping", cu(|| v(a.wrapping_floor()))));
            outs.push(("overflowing", cu(|| fl(a.overflowing_floor()))));
            outs.push(("plain", cu(|| v(a.floor()))));
        }
        ROUND => {
            outs.push(("checked", cu(|| o(a.checked_round()))));
            outs.push(("saturating", cu(|| v(a.saturating_round()))));
            outs.push(("wrapping", cu(|| v(a.wrapping_round()))));
            outs.push(("overflowing", cu(|| fl(a.overflowing_round()))));
            outs.push(("plain", cu(|| v(a.round()))));
        }
        ROUND_TE => {
            outs.push(("checked", cu(|| o(a.checked_round_ties_to_even()))));
            outs.push(("saturating", cu(|| v(a.saturating_round_ties_to_even()))));
            outs.push(("wrapping", cu(|| v(a.wrapping_round_ties_to_even()))));
            outs.push(("overflowing", cu(|| fl(a.overflowing_round_ties_to_even()))));
            outs.push(("plain", cu(|| v(a.round_ties_to_even()))));
        }
        ROUND_TO_ZERO => {
            outs.push(("plain", cu(|| v(a.round_to_zero()))));
        }
        INT => {
            outs.push(("int", cu(|| v(a.int()))));
            outs.push(("frac", cu(|| v(a.frac()))));
        }
        _ => {}
    }
    outs
}

pub fn exec_signed<F: VF + FixedSigned>(op: u16, ar: u128, br: u128) -> Outs
where
    F::Bits: Copy,
{
    let a = F::from_raw(ar);
    match op {
        NEG => {
            let mut outs = exec_common::<F>(op, ar, br);
            outs.push(("plain", cu(|| v(-a))));
            outs.push(("ref&", cu(|| v(F::ref_un(a, 0)))));
            outs
        }
        ABS => vec![
            ("checked", cu(|| o(a.checked_abs()))),
            ("saturating", cu(|| v(a.saturating_abs()))),
            ("wrapping", cu(|| v(a.wrapping_abs()))),
            ("overflowing", cu(|| fl(a.overflowing_abs()))),
            ("plain", cu(|| v(a.abs()))),
        ],
        _ => exec_common::<F>(op, ar, br),
    }
}

pub fn exec_unsigned<F: VF + FixedUnsigned>(op: u16, ar: u128, br: u128) -> Outs
where
    F::Bits: Copy,
{
    match op {
        ABS => Vec::new(),
        _ => exec_common::<F>(op, ar, br),
    }
}

pub fn exec(lay: u16, op: u16, a: u128, b: u128) -> Outs {
    lay::with_layout!(lay as usize, F => exec_signed::<F>(op, a, b) ; exec_unsigned::<F>(op, a, b))
}
