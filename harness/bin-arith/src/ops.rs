//! Dispatch to the part crates (arith-sa/sb/ua/ub), which hold the calls into the
//! library under test and are separate crates only so that they compile in parallel.

pub use arith_sa::{ABS, ADD, CEIL, DIV, DIV_EUCLID, DIV_EUCLID_INT, DIV_INT, FLOOR, INT, MUL, MUL_INT, NEG, NOPS, OP_NAMES, REM, REM_EUCLID, REM_EUCLID_INT, REM_INT, ROUND, ROUND_TE, ROUND_TO_ZERO, SUB};
pub use arith_sa::{is_int_rhs, is_unary};
pub use arith_sa::*;
use vcore::out::{drive, Outs};

pub fn exec(lay: u16, op: u16, a: u128, b: u128) -> Outs {
    drive(&mut |st, outs| match lay {
        0..=123 => arith_sa::run(st, lay, op, a, b, outs),
        124..=252 => arith_sb::run(st, lay, op, a, b, outs),
        253..=376 => arith_ua::run(st, lay, op, a, b, outs),
        _ => arith_ub::run(st, lay, op, a, b, outs),
    })
}

pub fn exec_program(lay: u16, a: u128, prog: &[(u16, u128, u128)], s: &str) -> Outs {
    drive(&mut |st, outs| match lay {
        0..=123 => arith_sa::run_program(st, lay, a, prog, s, outs),
        124..=252 => arith_sb::run_program(st, lay, a, prog, s, outs),
        253..=376 => arith_ua::run_program(st, lay, a, prog, s, outs),
        _ => arith_ub::run_program(st, lay, a, prog, s, outs),
    })
}

pub fn exec_misc(lay: u16, sel: u128, a: u128, b: u128) -> Outs {
    drive(&mut |st, outs| match lay {
        0..=123 => arith_sa::run_misc(st, lay, sel, a, b, outs),
        124..=252 => arith_sb::run_misc(st, lay, sel, a, b, outs),
        253..=376 => arith_ua::run_misc(st, lay, sel, a, b, outs),
        _ => arith_ub::run_misc(st, lay, sel, a, b, outs),
    })
}
