//! C18: reference model of `Wrapping<F>` — the value modulo 2^w in exact integers,
//! every operation defined by the exact oracles followed by `wrap`.

use crate::ops::*;
use crate::{exact, Exact};
use vcore::flt::{self, FK, FV};
use vcore::lit::{round_literal, tokenise, Parsed};
use vcore::{Big, INTS, L};

pub enum Step {
    /// new value (raw) and whether the exact result overflowed
    Val(u128, bool),
    /// zero divisor or non-finite float: a panic is allowed (not asserted either way)
    MayPanic,
    /// parse error expected; value unchanged
    ParseErr,
    /// operation not available for this signedness; value unchanged
    NotAvail,
}

pub const FROM_FIXED_SRC: [L; 4] = [L::new(true, 32, 16), L::new(false, 16, 8), L::new(true, 128, 64), L::new(false, 128, 128)];

fn from_exact(l: L, e: Exact) -> Step {
    match e {
        Exact::ZeroDiv => Step::MayPanic,
        Exact::R(r) => Step::Val(l.wrap(&r), !l.fits(&r)),
        Exact::Split => unreachable!(),
    }
}

pub fn model_step(l: L, cur: u128, hist: &[u128], wop: u16, x: u128, y: u128, s: &str) -> Step {
    let m = l.mask();
    let w = l.w;
    let f = l.f;
    let av = l.val(cur);
    let xm = x & m;
    let val = |r: Big| Step::Val(l.wrap(&r), !l.fits(&r));
    match wop {
        W_NEG => from_exact(l, exact(l, NEG, cur, 0)),
        W_NOT => Step::Val(!cur & m, false),
        W_ABS => {
            if l.signed {
                from_exact(l, exact(l, ABS, cur, 0))
            } else {
                Step::NotAvail
            }
        }
        W_SIGNUM => {
            if l.signed {
                let one = Big::pow2(f);
                val(if av.is_pos() { one } else if av.is_neg() { one.neg() } else { Big::zero() })
            } else {
                Step::NotAvail
            }
        }
        W_CEIL => from_exact(l, exact(l, CEIL, cur, 0)),
        W_FLOOR => from_exact(l, exact(l, FLOOR, cur, 0)),
        W_ROUND => from_exact(l, exact(l, ROUND, cur, 0)),
        W_RTE => from_exact(l, exact(l, ROUND_TE, cur, 0)),
        W_RTZ => from_exact(l, exact(l, ROUND_TO_ZERO, cur, 0)),
        W_INT | W_FRAC => {
            let frac_mask = if f == 0 { 0 } else if f == 128 { u128::MAX } else { (1u128 << f) - 1 };
            Step::Val(if wop == W_INT { cur & m & !frac_mask } else { cur & frac_mask }, false)
        }
        W_NPOT => {
            if l.signed {
                Step::NotAvail
            } else if cur == 0 {
                Step::Val(1, false)
            } else {
                let b = 128 - (cur - 1).leading_zeros();
                if cur & (cur - 1) == 0 {
                    Step::Val(cur, false)
                } else if b >= w {
                    Step::Val(0, true)
                } else {
                    Step::Val(1u128 << b, false)
                }
            }
        }
        W_ROTL | W_ROTR => {
            let n = (x as u32) % w;
            let n = if wop == W_ROTR { (w - n) % w } else { n };
            let v = if n == 0 { cur } else { ((cur << n) | (cur >> (w - n))) & m };
            Step::Val(v, false)
        }
        W_BIN => match y & 7 {
            0 => from_exact(l, exact(l, ADD, cur, xm)),
            1 => from_exact(l, exact(l, SUB, cur, xm)),
            2 => from_exact(l, exact(l, MUL, cur, xm)),
            3 => from_exact(l, exact(l, DIV, cur, xm)),
            4 => from_exact(l, exact(l, REM, cur, xm)),
            5 => Step::Val(cur & xm, false),
            6 => Step::Val(cur | xm, false),
            _ => Step::Val(cur ^ xm, false),
        },
        W_DIV_EUCLID => from_exact(l, exact(l, DIV_EUCLID, cur, xm)),
        W_REM_EUCLID => from_exact(l, exact(l, REM_EUCLID, cur, xm)),
        W_INT_OP => from_exact(l, exact(l, [MUL_INT, DIV_INT, REM_INT][(y % 3) as usize], cur, xm)),
        W_DIV_EUCLID_INT => from_exact(l, exact(l, DIV_EUCLID_INT, cur, xm)),
        W_REM_EUCLID_INT => from_exact(l, exact(l, REM_EUCLID_INT, cur, xm)),
        W_SHIFT => {
            // amount reduced modulo the width (w divides 256, so the low byte decides)
            let amt = ((x & 0xff) as u32) % w;
            let right = (y >> 8) & 1 == 1;
            if right {
                if l.signed {
                    Step::Val(l.wrap(&av.shr_floor(amt)), false)
                } else {
                    Step::Val(cur >> amt, false)
                }
            } else {
                Step::Val((cur << amt) & m, false)
            }
        }
        W_SUM | W_PRODUCT if y & 2 != 0 => {
            // empty iterator: 0, respectively 1 modulo 2^w
            if wop == W_SUM {
                Step::Val(0, false)
            } else {
                val(Big::pow2(f))
            }
        }
        W_SUM => {
            let mut acc = Big::zero();
            let mut ovf = false;
            for h in hist {
                acc = l.val(l.wrap(&acc)).add(&l.val(*h));
                ovf |= !l.fits(&acc);
            }
            Step::Val(l.wrap(&acc), ovf)
        }
        W_PRODUCT => {
            let mut it = hist.iter();
            let mut ovf = false;
            let mut acc = match it.next() {
                None => l.wrap(&Big::pow2(f)),
                Some(h) => *h,
            };
            for h in it {
                let p = l.val(acc).mul(&l.val(*h)).shr_floor(f);
                ovf |= !l.fits(&p);
                acc = l.wrap(&p);
            }
            Step::Val(acc, ovf)
        }
        W_FROM_INT => {
            let k = INTS[(y % 12) as usize].as_l();
            val(k.val(x).shl(f))
        }
        W_FROM_F64 | W_FROM_F32 => {
            let (k, bits) = if wop == W_FROM_F64 { (FK::F64, x as u64) } else { (FK::F32, x as u32 as u64) };
            match flt::decode(k, bits) {
                FV::Fin { neg, mant, exp } => val(flt::float_to_raw_rne(neg, mant, exp, f)),
                _ => Step::MayPanic,
            }
        }
        W_FROM_FIXED => {
            let sl = FROM_FIXED_SRC[(y % 4) as usize];
            val(sl.val(x).scale_floor(f as i64 - sl.f as i64))
        }
        W_FROM_STR => {
            let radix = match y {
                2 | 8 | 16 => y as u32,
                _ => 10,
            };
            match tokenise(s, radix) {
                Parsed::Malformed => Step::ParseErr,
                Parsed::Value { neg, num, k } => val(round_literal(neg, &num, k, radix, f).0),
            }
        }
        _ => Step::NotAvail,
    }
}
