fn main() {
    bin_arith::main_entry()
}
