//! Engine `arith`: C01 (exactly rounded products/quotients), C02 (form
//! consistency), C06 (rounding methods), C07 (remainders / Euclidean division).
//! Oracle: exact integer arithmetic on the raw values in `Big`.

mod ops;
mod kf;
mod wrapmodel;

use ops::*;
use proptest::prelude::*;
use vcore::gen::{ing, layout_or, pattern, pick, Ing};
use vcore::run::{Budget, Engine, Kf, Tier};
use vcore::{Big, Case, Eval, Exp, Fail, Out, L, NLAY};

pub struct Arith;

/// exact mathematical result of an operation on raw values, before any form semantics
pub enum Exact {
    ZeroDiv,
    /// raw-scale integer result
    R(Big),
    /// int/frac split
    Split,
}

pub fn int_l(l: L) -> L {
    L { signed: l.signed, w: l.w, f: 0 }
}

pub fn exact(l: L, op: u16, a: u128, b: u128) -> Exact {
    let av = l.val(a);
    let f = l.f;
    let bv = if is_int_rhs(op) { int_l(l).val(b).shl(f) } else { l.val(b) };
    let r = match op {
        ADD => &av + &bv,
        SUB => &av - &bv,
        MUL => (&av * &bv).shr_floor(f),
        DIV => {
            if bv.is_zero() {
                return Exact::ZeroDiv;
            }
            av.shl(f).div_trunc(&bv)
        }
        REM | REM_INT => {
            if bv.is_zero() {
                return Exact::ZeroDiv;
            }
            av.rem_trunc(&bv)
        }
        REM_EUCLID | REM_EUCLID_INT => {
            if bv.is_zero() {
                return Exact::ZeroDiv;
            }
            av.divrem_euclid(&bv).1
        }
        DIV_EUCLID | DIV_EUCLID_INT => {
            if bv.is_zero() {
                return Exact::ZeroDiv;
            }
            av.divrem_euclid(&bv).0.shl(f)
        }
        MUL_INT => &av * &int_l(l).val(b),
        DIV_INT => {
            let n = int_l(l).val(b);
            if n.is_zero() {
                return Exact::ZeroDiv;
            }
            av.div_trunc(&n)
        }
        NEG => av.neg(),
        ABS => av.abs(),
        FLOOR => av.shr_floor(f).shl(f),
        CEIL => av.neg().shr_floor(f).neg().shl(f),
        ROUND_TO_ZERO => av.shr_trunc(f).shl(f),
        ROUND => {
            if f == 0 {
                av
            } else {
                let m = av.abs().add(&Big::pow2(f - 1)).shr_floor(f).shl(f);
                if av.is_neg() {
                    m.neg()
                } else {
                    m
                }
            }
        }
        ROUND_TE => {
            if f == 0 {
                av
            } else {
                let fl = av.shr_floor(f);
                let rem = &av - &fl.shl(f);
                let half = Big::pow2(f - 1);
                if rem > half || (rem == half && fl.is_odd()) {
                    fl.add_i64(1).shl(f)
                } else {
                    fl.shl(f)
                }
            }
        }
        INT => return Exact::Split,
        _ => unreachable!(),
    };
    Exact::R(r)
}

/// expectation for one labelled output, given the exact result
pub fn expect_label(l: L, label: &str, ex: &Exact) -> Exp {
    match ex {
        Exact::ZeroDiv => match label {
            "checked" => Exp::Is(Out::O(None)),
            _ => Exp::Free,
        },
        Exact::R(r) => {
            let fits = l.fits(r);
            let wr = l.wrap(r);
            match label {
                "checked" => Exp::Is(Out::O(if fits { Some(wr) } else { None })),
                "saturating" => Exp::Is(Out::V(l.clamp(r))),
                "wrapping" | "Wrapping" => Exp::Is(Out::V(wr)),
                "overflowing" => Exp::Is(Out::F(wr, !fits)),
                _ => {
                    if fits {
                        Exp::Is(Out::V(wr))
                    } else {
                        Exp::PlainOvf(Out::V(wr))
                    }
                }
            }
        }
        Exact::Split => Exp::NoPanic,
    }
}

const FOUR_FORMS: [&str; 4] = ["checked", "saturating", "wrapping", "overflowing"];

fn ops_of(prop: &str) -> &'static [u16] {
    match prop {
        "C01" => &[MUL, DIV],
        "C02" => &[ADD, SUB, MUL, DIV, MUL_INT, DIV_INT, NEG, ABS],
        "C06" => &[CEIL, FLOOR, ROUND, ROUND_TE, ROUND_TO_ZERO, INT],
        "C07" => &[REM, DIV_EUCLID, REM_EUCLID, REM_INT, DIV_EUCLID_INT, REM_EUCLID_INT],
        _ => &[],
    }
}

/// dependent second operand: derive (a, b) from ingredients so that the interesting
/// regions (overflow boundary, exact multiples, -1 ulp divisors) are hit often
fn derive_pair(l: L, op: u16, ia: Ing, ib: Ing, dep: usize, r3: u128) -> (u128, u128) {
    let bl = if is_int_rhs(op) { int_l(l) } else { l };
    let mut a = pattern(l, ia);
    let mut b = pattern(bl, ib);
    if is_unary(op) {
        return (a, 0);
    }
    let f = l.f;
    let av = l.val(a);
    let d = Big::from_i64((r3 % 5) as i64 - 2);
    let scale_b = |x: &Big| -> Big { if is_int_rhs(op) { x.shr_floor(f) } else { x.clone() } };
    match dep {
        0 => {}
        1 => b = a & bl.mask(),
        2 => b = a.wrapping_neg() & bl.mask(),
        3 => b = bl.wrap(&(&l.val(a) + &d)),
        4 => {
            // product near the overflow boundary: b ~ T * 2^f / a
            if !av.is_zero() {
                let t = match (r3 >> 8) % 4 {
                    0 => l.hi(),
                    1 => l.lo(),
                    2 => l.hi().add_i64(1),
                    _ => l.lo().add_i64(-1),
                };
                let q = if is_int_rhs(op) { t.div_trunc(&av) } else { t.shl(f).div_trunc(&av) };
                b = bl.wrap(&(&q + &d));
            }
        }
        5 => {
            // quotient near the overflow boundary: b ~ a * 2^f / T
            let t = if (r3 >> 8) & 1 == 0 { l.hi() } else { l.lo() };
            if !t.is_zero() {
                let q = if is_int_rhs(op) { av.div_trunc(&t) } else { av.shl(f).div_trunc(&t) };
                b = bl.wrap(&(&q + &d));
            }
        }
        8 => {
            // carry boundary of the middle column of the two-limb product (128-bit multiplications)
            if l.w == 128 && op == MUL {
                if (r3 >> 101) & 3 == 0 {
                    // squares: x = xh 2^64 + xl with the cross product xh*xl just below 2^127 (unsigned) or 2^126
                    // (signed), so that doubling it meets the carry of xl^2 at the column's carry boundary
                    let t = if l.signed { 1u128 << 126 } else { 1u128 << 127 };
                    let lo = if l.signed { 1u128 << 62 } else { 1u128 << 63 };
                    let xh = lo | ((r3 >> 8) & (lo - 1));
                    let xl = ((t - 1) / xh).wrapping_sub((r3 >> 104) % 3).min(u64::MAX as u128);
                    let x = (xh << 64) | xl;
                    a = if l.signed && (r3 >> 103) & 1 == 1 { x.wrapping_neg() } else { x };
                    b = a;
                } else if let Some((x, y)) = mul_column_boundary(r3) {
                    (a, b) = if (r3 >> 100) & 1 == 1 { (y, x) } else { (x, y) };
                }
            }
        }
        6 => {
            // a = q*b + small: exact multiples and their neighbours
            if (r3 >> 40) & 3 == 3 && !is_int_rhs(op) && l.w >= 16 {
                // a divisor of more than half the width (but not the full width), so that a multi-digit divisor
                // meets a multiplier with room: the schoolbook division's quotient-digit corrections
                let top = if l.signed { l.w - 1 } else { l.w };
                let nb = top / 2 + 1 + ((r3 >> 104) % (top / 2 - 2).max(1) as u128) as u32;
                let h = r3.wrapping_mul(0x9e37_79b9_7f4a_7c15_f39c_c060_5ced_c835) ^ (r3 >> 61);
                let v = (h & ((1u128 << (nb - 1)) - 1)) | (1u128 << (nb - 1));
                b = if l.signed && (r3 >> 103) & 1 == 1 { v.wrapping_neg() & l.mask() } else { v };
            }
            let bv = if is_int_rhs(op) { bl.val(b).shl(f) } else { bl.val(b) };
            // small multipliers, or a random (mostly odd) multiplier of up to 62 bits
            let q = if (r3 >> 40) & 1 == 0 {
                Big::from_i64(((r3 >> 8) % 17) as i64 - 8)
            } else {
                // as many bits as leave the product inside the type (a wrapped product is no multiple any more)
                let room = (l.w - 1).saturating_sub(bv.bits() as u32).clamp(1, 62);
                let k = 1 + ((r3 >> 48) % room as u128) as u32;
                let m = ((r3 >> 60) as u64 & ((1u64 << k) - 1)) | 1;
                let m = Big::from_u64(m);
                if (r3 >> 41) & 1 == 1 && l.signed { m.neg() } else { m }
            };
            let d1 = Big::from_i64((r3 % 3) as i64 - 1);
            a = l.wrap(&(&(&q * &bv) + &d1));
        }
        _ => {
            let one = Big::pow2(f);
            let t: [Big; 8] = [
                Big::from_i64(-1),
                Big::from_i64(1),
                scale_b(&one),
                scale_b(&one).neg(),
                bl.lo(),
                bl.hi(),
                Big::pow2(l.int_bits().saturating_sub(1)),
                Big::pow2(l.int_bits().saturating_sub(1)).neg(),
            ];
            b = bl.wrap(&t[((r3 >> 8) % 8) as usize]);
        }
    }
    (a, b)
}


/// Operands (a, b) of a 128-bit multiplication for which the middle column of the two-limb schoolbook product,
/// `ah*bl + floor(al*bl / 2^64) + al*bh`, is exactly 2^128 - 1, 2^128 - 2 or 2^128: the boundary of the only
/// carry that column can produce. Uniform operands reach it with probability 2^-128; it is solved for here:
/// ah = 2^64 - alpha, bl = 2^64 - beta, small bh, and al searched around N / (bh + 1).
pub fn mul_column_boundary(r: u128) -> Option<(u128, u128)> {
    let m64 = u64::MAX as u128;
    for t in 0..96u128 {
        let r = r.wrapping_add(t.wrapping_mul(0x9e37_79b9_7f4a_7c15_f39c_c060_5ced_c835));
        let (ka, kb) = (1 + (r % 12) as u32, 1 + ((r >> 8) % 12) as u32);
        let alpha = 1 + (r >> 16) % (1u128 << ka);
        let beta = 1 + (r >> 40) % (1u128 << kb);
        let bh = alpha + beta + (r >> 64) % 24;
        let delta = ((r >> 80) % 3) as i128 - 1;
        let (ah, bl) = ((1u128 << 64) - alpha, (1u128 << 64) - beta);
        // N = target - ah*bl = (alpha + beta) 2^64 - alpha beta - 1 + delta
        let n = (((alpha + beta) << 64) - alpha * beta - 1).wrapping_add(delta as u128);
        let g = |al: u128| al * bh + ((al * bl) >> 64);
        let al0 = n / (bh + 1);
        for d in 0..8u128 {
            let al = al0.wrapping_add(d).wrapping_sub(3);
            if al <= m64 && g(al) == n {
                return Some(((ah << 64) | al, (bh << 64) | bl));
            }
        }
    }
    None
}

const DEP_TABLE: [usize; 16] = [0, 0, 0, 0, 1, 2, 3, 4, 4, 5, 5, 6, 6, 7, 8, 8];

/// the boundary block of the 32-bit target tier: 20 layouts (both signednesses, every width, fractions 0 and w/2)
fn mini_layouts() -> Vec<L> {
    let mut v = Vec::new();
    for signed in [true, false] {
        for w in [8u32, 16, 32, 64, 128] {
            for f in [0, w / 2] {
                v.push(L::new(signed, w, f));
            }
        }
    }
    v
}
fn mini_ops(prop: &str) -> &'static [u16] {
    match prop {
        "C07" => &[REM, REM_EUCLID, REM_EUCLID_INT],
        _ => &[MUL, DIV, DIV_INT],
    }
}
const MINI_B: usize = 8;
/// boundary operands of a layout: 0, +-1 ulp, MIN, MAX, +-1.0 (or the half-width bit), the minimum shifted down by the
/// fraction width (the dividend whose shifted form is the double-width minimum)
fn mini_operand(l: L, k: usize) -> u128 {
    let m = l.mask();
    let top = 1u128 << (l.w - 1);
    let one = if l.f < l.w { 1u128 << l.f } else { 1u128 << (l.w / 2) };
    let min_shr = if l.f < l.w { m & !((1u128 << (l.w - 1 - l.f)) - 1) } else { top };
    [0, 1, m, top, top - 1, one, one.wrapping_neg() & m, min_shr][k % MINI_B] & m
}

impl Engine for Arith {
    fn name(&self) -> &'static str {
        "arith"
    }
    fn props(&self) -> Vec<&'static str> {
        vec!["C01", "C02", "C06", "C07", "C18"]
    }
    fn op_name(&self, prop: &str, op: u16) -> String {
        if op == MISC {
            "misc".to_string()
        } else if op == PROGRAM {
            "wrapping_program".to_string()
        } else if prop == "C18" {
            W_NAMES[op as usize % W_NAMES.len()].to_string()
        } else {
            OP_NAMES[op as usize].to_string()
        }
    }
    fn op_from_name(&self, prop: &str, s: &str) -> Option<u16> {
        if s == "misc" {
            Some(MISC)
        } else if s == "wrapping_program" {
            Some(PROGRAM)
        } else if prop == "C18" {
            W_NAMES.iter().position(|n| *n == s).map(|i| i as u16)
        } else {
            OP_NAMES.iter().position(|n| *n == s).map(|i| i as u16)
        }
    }
    fn strategy(&self, prop: &str, stratum: Option<u16>) -> BoxedStrategy<Case> {
        if prop == "C18" {
            return program_strategy(stratum);
        }
        if prop == "C11m" {
            // miscellaneous operations exercised by the profile pair only
            return (layout_or(stratum), pick(6), ing(), ing(), any::<u128>())
                .prop_map(|(lay, which, ia, ib, r)| {
                    let l = L::from_idx(lay as usize);
                    let a = pattern(l, ia);
                    let (sel, b) = match which {
                        0 => {
                            let kind = (r % 12) as usize;
                            let kl = vcore::INTS[kind].as_l();
                            let amt: i128 = match (r >> 8) % 6 {
                                0 | 1 => ((r >> 16) % l.w as u128) as i128,
                                2 => l.w as i128 + ((r >> 16) % 5) as i128 - 2,
                                3 => -(((r >> 16) % (2 * l.w as u128)) as i128) - 1,
                                4 => (r >> 16) as i128,
                                _ => ((r >> 16) % 300) as i128,
                            };
                            ((kind as u128) << 8 | ((r >> 100) & 1) << 16 | ((r >> 104) % 6) << 20, kl.wrap(&Big::from_i128(amt)))
                        }
                        3 | 4 => (which as u128 | ((r % 3) << 8) | ((r >> 8) & 3) << 12, pattern(l, ib)),
                        w => (w as u128, pattern(l, ib)),
                    };
                    Case { op: MISC, lay, a, b, c: sel, ..Case::default() }
                })
                .boxed();
        }
        let ops = ops_of(prop);
        (layout_or(stratum), pick(ops.len()), ing(), ing(), pick(DEP_TABLE.len()), any::<u128>())
            .prop_map(move |(lay, oi, ia, ib, dep, r3)| {
                let l = L::from_idx(lay as usize);
                let mut op = ops[oi];
                if op == ABS && !l.signed {
                    op = NEG;
                }
                let (a, b) = derive_pair(l, op, ia, ib, DEP_TABLE[dep], r3);
                Case { op, lay, a, b, ..Case::default() }
            })
            .boxed()
    }
    fn budget(&self, prop: &str, tier: Tier) -> Budget {
        let strata: Vec<u16> = (0..NLAY as u16).collect();
        if prop == "C11m" {
            return Budget { random: 100_000_000, per_stratum: 100_000, strata };
        }
        if prop == "C18" {
            return match tier {
                Tier::Quick => Budget { random: 600_000, per_stratum: 400, strata },
                Tier::Thorough => Budget { random: 80_000_000, per_stratum: 40_000, strata },
            };
        }
        let nops = ops_of(prop).len() as u64;
        match tier {
            Tier::Quick => Budget { random: 1_000_000, per_stratum: 64 * nops, strata },
            Tier::Thorough => Budget { random: 120_000_000, per_stratum: 4096 * nops, strata },
        }
    }
    fn exh_len(&self, prop: &str, _tier: Tier) -> u64 {
        match prop {
            // all 18 eight-bit layouts x all operand pairs x every binary op of the property
            "C01" => 2 * 18 * 65536,
            "C02" => 6 * 18 * 65536 + 2 * 18 * 256,
            "C07" => 6 * 18 * 65536,
            // every value of every 8- and 16-bit layout x 6 ops
            "C06" => 6 * (18 * 256 + 34 * 65536),
            _ => 0,
        }
    }
    fn mini_len(&self, prop: &str) -> u64 {
        match prop {
            "C02" | "C07" => mini_layouts().len() as u64 * mini_ops(prop).len() as u64 * (MINI_B * MINI_B) as u64,
            _ => 0,
        }
    }
    fn mini_case(&self, prop: &str, i: u64) -> Case {
        let lays = mini_layouts();
        let ops = mini_ops(prop);
        let nb = (MINI_B * MINI_B) as u64;
        let (ab, r) = (i % nb, i / nb);
        let l = lays[(r % lays.len() as u64) as usize];
        let op = ops[(r / lays.len() as u64) as usize % ops.len()];
        Case { op, lay: l.idx() as u16, a: mini_operand(l, (ab / MINI_B as u64) as usize), b: mini_operand(l, (ab % MINI_B as u64) as usize), ..Case::default() }
    }
    fn exh_case(&self, prop: &str, _tier: Tier, i: u64) -> Case {
        let lay8 = |k: u64| -> u16 { if k < 9 { k as u16 } else { (253 + k - 9) as u16 } };
        let lay16 = |k: u64| -> u16 { if k < 17 { (9 + k) as u16 } else { (262 + k - 17) as u16 } };
        match prop {
            "C01" | "C07" | "C02" => {
                let ops = ops_of(prop);
                let nbin: u64 = if prop == "C02" { 6 } else { ops.len() as u64 };
                let nb = nbin * 18 * 65536;
                if i < nb {
                    let ab = i % 65536;
                    let r = i / 65536;
                    let lay = lay8(r % 18);
                    let op = ops[(r / 18) as usize];
                    Case { op, lay, a: (ab >> 8) as u128, b: (ab & 0xff) as u128, ..Case::default() }
                } else {
                    let j = i - nb;
                    let a = j % 256;
                    let r = j / 256;
                    let lay = lay8(r % 18);
                    let mut op = [NEG, ABS][(r / 18) as usize];
                    if op == ABS && !L::from_idx(lay as usize).signed {
                        op = NEG;
                    }
                    Case { op, lay, a: a as u128, ..Case::default() }
                }
            }
            "C06" => {
                let ops = ops_of(prop);
                let per_op = 18 * 256 + 34 * 65536;
                let op = ops[(i / per_op) as usize];
                let j = i % per_op;
                if j < 18 * 256 {
                    Case { op, lay: lay8(j / 256), a: (j % 256) as u128, ..Case::default() }
                } else {
                    let k = j - 18 * 256;
                    Case { op, lay: lay16(k / 65536), a: (k % 65536) as u128, ..Case::default() }
                }
            }
            _ => unreachable!(),
        }
    }
    fn exh_desc(&self, prop: &str, _tier: Tier) -> String {
        match prop {
            "C01" => "all 18 eight-bit layouts x all 65536 operand pairs x {mul, div}".into(),
            "C02" => "all 18 eight-bit layouts x all 65536 operand pairs x {add, sub, mul, div, mul_int, div_int} + all 256 values x {neg, abs}".into(),
            "C07" => "all 18 eight-bit layouts x all 65536 (dividend, divisor) pairs x {rem, div_euclid, rem_euclid, rem_int, div_euclid_int, rem_euclid_int}".into(),
            "C06" => "every value of all 18 eight-bit and all 34 sixteen-bit layouts x {ceil, floor, round, round_ties_to_even, round_to_zero, int/frac}".into(),
            _ => String::new(),
        }
    }
    fn rule(&self, prop: &str) -> String {
        match prop {
            "C01" => "cases = (layout, mul|div, a, b) from the operand-class and dependent-operand generators over all 506 layouts, plus the exhaustive 8-bit sub-space; oracle floor(a*b/2^f), trunc(a*2^f/b) in exact integers; asserted on every form (checked/saturating/wrapping/overflowing/operator/assign/by-ref) when the result is representable. Non-trivial: both operands non-zero, |b| != 1.0, result representable, and (bits were discarded, or |result| >= 2^(w-2), or w = 128). distinct = distinct (layout, op, a, b) among non-trivial cases (64-bit hash set, capped; a lower bound when capped).".into(),
            "C02" => "cases = (layout, op in {add,sub,mul,div,mul_int,div_int,neg,abs}, operands); oracle = one exact result R in exact integers, then checked = Some(R) iff representable (None for zero divisor), saturating = clamp(R), wrapping = R mod 2^w, overflowing = (R mod 2^w, !fits); no form may unwind except zero divisor in non-checked division. Non-trivial: R not representable or within 2 ulp of a bound, or zero divisor. distinct as in C01.".into(),
            "C06" => "cases = (layout, rounding op, a): every value of all 8- and 16-bit layouts, generated values (integer +- tiny, ties, bounds) elsewhere; oracle = exact integer rounding of a/2^f; all forms; int+frac == x, and int = floor, 0 <= frac < 1 when the layout has an integer bit. Non-trivial: fractional part non-zero or result not representable.".into(),
            "C18" => "cases = (layout, initial value, program of 0..8 operations on Wrapping<F>): unary (- ! abs signum ceil floor round round_ties_to_even round_to_zero int frac next_power_of_two rotate), binary + - * / % & | ^ in by-value/by-reference/assign forms, div_euclid/rem_euclid, * / % by an integer of the underlying type, *_euclid_int, shifts by each of the 12 integer types (amounts incl. negative and >= width), sum/product of the values so far (by value and by reference), from_num of integers/floats/fixed of other layouts, from_str in radix 2/8/10/16. Oracle: reference model = value mod 2^w in exact integers, compared after EVERY step; differential against the corresponding wrapping_* call on F; unwinding allowed only for a zero divisor or a non-finite float. Non-trivial: at least one step overflowed in the model.".into(),
            "C07" => "cases = (layout, op in {rem, div_euclid, rem_euclid, rem_int, div_euclid_int, rem_euclid_int}, a, b != 0) (b a fixed-point number or an integer of the underlying type); oracle: r = a - b*trunc(a/b); Euclid: r in [0,|b|), q = (a-r)/b exact, result q*2^f; integer divisor never truncated; all forms incl. plain; overflow iff q*2^f (resp. r) not representable. Non-trivial: a is not a multiple of b and a != 0.".into(),
            _ => String::new(),
        }
    }
    fn assumptions(&self, _prop: &str) -> Vec<String> {
        vec![
            "oracle arithmetic: harness Big integers (self-tested against native i128 and algebraic identities at start of run)".into(),
            "a plain (no overflow handling) form whose exact result does not fit may return the wrapped value or panic".into(),
        ]
    }
    fn required_classes(&self, prop: &str, _tier: Tier) -> Vec<&'static str> {
        match prop {
            "C01" => vec!["frac=0", "frac=w", "w128", "w128-big-operands", "neg-product-floored", "div-opposite-signs-with-remainder", "min-operand"],
            "C02" => vec!["overflow-high", "overflow-low", "fits", "zero-divisor", "min/-1ulp"],
            "C06" => vec!["tie-positive", "tie-negative", "int-bits=0", "int-bits=1", "frac=0", "overflow"],
            "C18" => vec!["step-overflowed", "shift-amount>=width", "shift-negative-amount", "zero-divisor", "non-finite-float", "sum", "product", "empty-sum-or-product", "from_str", "by-reference-form", "assign-form", "int-bits=0"],
            "C07" => vec!["quotient-fits-but-trunc-division-overflows", "int-divisor-not-representable", "negative-remainder-corrected", "overflow", "min%-1ulp"],
            _ => vec![],
        }
    }
    fn echo(&self, _prop: &str, c: &Case) -> Option<Case> {
        let mut s = c.clone();
        s.lay = vcore::run::same_width_layout(c.lay, c.a as u64 ^ (c.b as u64).rotate_left(17) ^ c.op as u64);
        if s.lay == c.lay { None } else { Some(s) }
    }
    fn eval(&self, prop: &str, c: &Case, chk: bool, kf: &Kf) -> Eval {
        if c.op == PROGRAM {
            return eval_program(c, chk, kf);
        }
        let mut ev = Eval::default();
        let l = L::from_idx(c.lay as usize);
        let op = c.op;
        if op == ABS && !l.signed {
            ev.skipped = true;
            return ev;
        }
        let bl = if is_int_rhs(op) { int_l(l) } else { l };
        let (a, b) = (c.a & l.mask(), c.b & bl.mask());
        let ex = exact(l, op, a, b);
        if prop == "C07" && matches!(ex, Exact::ZeroDiv) {
            ev.skipped = true;
            return ev;
        }
        let outs = exec(c.lay, op, a, b);
        let av = l.val(a);
        let bv_raw = bl.val(b);
        let fits = match &ex {
            Exact::R(r) => l.fits(r),
            _ => true,
        };
        // which labels does the property speak about?
        let asserted = |label: &str| -> bool {
            match prop {
                "C01" => fits && !matches!(ex, Exact::ZeroDiv),
                "C02" => FOUR_FORMS.contains(&label) || label == "Wrapping",
                _ => true,
            }
        };
        let mut note = String::new();
        for (label, got) in &outs {
            if note.len() < 160 {
                note.push_str(&format!("{}={} ", label, got.show()));
            }
            if !asserted(label) {
                continue;
            }
            let exp = if op == INT {
                int_frac_expect(l, a, label)
            } else {
                expect_label(l, label, &ex)
            };
            if !exp.accepts(got, chk) {
                if let Some(id) = kf::matches(kf, prop, l, op, a, b, label, got, &ex, chk) {
                    if !ev.known.contains(&id) {
                        ev.known.push(id);
                    }
                    continue;
                }
                ev.fails.push(Fail { label: label.to_string(), got: got.show(), want: exp.show() });
            }
        }
        if op == INT {
            // int + frac == x (mod 2^w always; exact when there is an integer bit)
            let gi = outs.iter().find(|(l, _)| *l == "int").map(|x| x.1.clone());
            let gf = outs.iter().find(|(l, _)| *l == "frac").map(|x| x.1.clone());
            if let (Some(Out::V(i)), Some(Out::V(fr))) = (gi, gf) {
                let sum = &l.val(i) + &l.val(fr);
                if sum != av {
                    ev.fails.push(Fail { label: "int+frac".into(), got: format!("{}", sum), want: format!("{}", av) });
                }
            }
        }
        ev.note = note;
        classify(prop, l, op, a, b, &av, &bv_raw, &ex, fits, &mut ev);
        ev
    }
    fn pair_gens(&self) -> Vec<&'static str> {
        vec!["C01", "C02", "C06", "C07", "C18", "C11m"]
    }
    fn exec_raw(&self, _prop: &str, c: &Case) -> vcore::out::Outs {
        let l = L::from_idx(c.lay as usize);
        if c.op == MISC {
            return exec_misc(c.lay, c.c, c.a & l.mask(), c.b);
        }
        if c.op == PROGRAM {
            exec_program(c.lay, c.a & l.mask(), &c.prog, &c.s)
        } else {
            let bl = if is_int_rhs(c.op) { int_l(l) } else { l };
            exec(c.lay, c.op, c.a & l.mask(), c.b & bl.mask())
        }
    }
    fn pair_known(&self, kf: &Kf, _prop: &str, c: &Case, label: &str, chk_out: &Out, _rel_out: &Out) -> Option<&'static str> {
        // the plain div_euclid forms convert 1 with from_num(1): an overflow panic under the checking
        // profile although q fits (known finding of C07)
        if c.op == DIV_EUCLID || c.op == DIV_EUCLID_INT {
            let l = L::from_idx(c.lay as usize);
            let bl = if is_int_rhs(c.op) { int_l(l) } else { l };
            return kf::matches(kf, "C07", l, c.op, c.a & l.mask(), c.b & bl.mask(), label, chk_out, &Exact::Split, true);
        }
        None
    }
    fn selftest(&self) -> Result<u64, String> {
        // the oracle on hand-computed vectors (independent of the library)
        let l = L::parse("I4F4").unwrap();
        let t = |op: u16, a: i64, b: i64| -> i128 {
            match exact(l, op, (a as u128) & 0xff, (b as u128) & 0xff) {
                Exact::R(r) => r.to_i128().unwrap(),
                _ => i128::MIN,
            }
        };
        let checks = [
            (t(MUL, 0x18, 0x18), 0x24),         // 1.5 * 1.5 = 2.25
            (t(MUL, -0x18, 0x11), -26),         // -1.5 * 1.0625 = -1.59375 -> floor to -1.625 = -26/16
            (t(DIV, 0x10, 0x30), 5),            // 1/3 = 0.333 -> 5/16
            (t(DIV, -0x10, 0x30), -5),          // toward zero
            (t(REM, -0x15, 0x10), -5),          // -1.3125 % 1 = -0.3125
            (t(REM_EUCLID, -0x15, 0x10), 11),   // 0.6875
            (t(DIV_EUCLID, -0x15, 0x10), -0x20), // -2
            (t(DIV_EUCLID, -0x15, -0x10), 0x20), // 2
            (t(ROUND, 0x18, 0), 0x20),
            (t(ROUND, -0x18, 0), -0x20),
            (t(ROUND_TE, 0x18, 0), 0x20),
            (t(ROUND_TE, 0x28, 0), 0x20),
            (t(ROUND_TE, -0x18, 0), -0x20),
            (t(CEIL, -0x18, 0), -0x10),
            (t(FLOOR, -0x18, 0), -0x20),
            (t(ROUND_TO_ZERO, -0x18, 0), -0x10),
            (t(MUL_INT, 0x18, 3), 0x48),
            (t(DIV_INT, -0x18, 5), -4),
            (t(REM_INT, -0x35, 2), -0x15),
            (t(REM_EUCLID_INT, -0x35, 2), 0x0b),
            (t(DIV_EUCLID_INT, -0x35, 2), -0x20),
        ];
        for (i, (got, want)) in checks.iter().enumerate() {
            if got != want {
                return Err(format!("arith oracle selftest vector {}: got {} want {}", i, got, want));
            }
        }
        Ok(checks.len() as u64)
    }
}

const WOP_TABLE: [u16; 40] = [
    W_BIN, W_BIN, W_BIN, W_BIN, W_BIN, W_BIN, W_INT_OP, W_INT_OP, W_INT_OP, W_SHIFT, W_SHIFT, W_SHIFT, W_NEG, W_NOT, W_ABS, W_SIGNUM,
    W_CEIL, W_FLOOR, W_ROUND, W_RTE, W_RTZ, W_INT, W_FRAC, W_NPOT, W_ROTL, W_ROTR, W_DIV_EUCLID, W_REM_EUCLID, W_DIV_EUCLID_INT,
    W_REM_EUCLID_INT, W_SUM, W_PRODUCT, W_FROM_INT, W_FROM_INT, W_FROM_F64, W_FROM_F32, W_FROM_FIXED, W_FROM_STR, W_BIN, W_INT_OP,
];
const LITERALS: [&str; 20] = ["0", "1", "-1", "0.5", "-0.5", "255.996", "1e3", "", ".", "7.", ".25", "+3.75", "-128", "32768", "0.0000152587890625", "1.2.3", "ff.8", "-7f", "101.101", "99999999999999999999999999999999999999999"];

fn program_strategy(stratum: Option<u16>) -> BoxedStrategy<Case> {
    let step = (pick(WOP_TABLE.len()), ing(), any::<u128>(), any::<u128>());
    (layout_or(stratum), ing(), proptest::collection::vec(step, 0..=MAX_STEPS), pick(LITERALS.len()), proptest::collection::vec(0u8..10, 0..30), any::<u128>())
        .prop_map(|(lay, ia, steps, lit, digits, lsel)| {
            let l = L::from_idx(lay as usize);
            let il = int_l(l);
            let mut prog = Vec::new();
            for (wi, ig, r1, r2) in steps {
                let wop = WOP_TABLE[wi];
                let (x, y) = match wop {
                    W_BIN => (pattern(l, ig), (r1 % 8) | ((r2 % 6) << 8)),
                    W_DIV_EUCLID | W_REM_EUCLID => (pattern(l, ig), 0),
                    W_INT_OP => {
                        let n = if r2 & 3 == 0 { pattern(il, ig) } else { il.wrap(&Big::from_i64((r1 % 11) as i64 - 5)) };
                        (n, (r1 >> 8) % 3 | ((r2 >> 8) % 6) << 8)
                    }
                    W_DIV_EUCLID_INT | W_REM_EUCLID_INT => (if r2 & 1 == 0 { pattern(il, ig) } else { il.wrap(&Big::from_i64((r1 % 11) as i64 - 5)) }, 0),
                    W_SHIFT => {
                        let kind = (r1 % 12) as usize;
                        let kl = vcore::INTS[kind].as_l();
                        // amounts: small, around the width, negative, huge
                        let amt: i128 = match (r1 >> 8) % 6 {
                            0 | 1 => ((r1 >> 16) % l.w as u128) as i128,
                            2 => l.w as i128 + ((r1 >> 16) % 5) as i128 - 2,
                            3 => -(((r1 >> 16) % (2 * l.w as u128)) as i128) - 1,
                            4 => (r1 >> 16) as i128,
                            _ => ((r1 >> 16) % 300) as i128,
                        };
                        (kl.wrap(&Big::from_i128(amt)), kind as u128 | ((r2 & 1) << 8) | ((r2 >> 8) % 6) << 16)
                    }
                    W_ROTL | W_ROTR => ((r1 % 300) | if r1 >> 100 & 7 == 0 { r1 & 0xffff_0000 } else { 0 }, 0),
                    W_FROM_INT => {
                        let kind = (r1 % 12) as usize;
                        (pattern(vcore::INTS[kind].as_l(), ig), kind as u128)
                    }
                    W_FROM_F64 => {
                        let v = match r2 % 6 {
                            0 => r1 as u64,
                            1 => f64::NAN.to_bits(),
                            2 => f64::INFINITY.to_bits() | (r1 as u64 & (1 << 63)),
                            _ => (l.approx(pattern(l, ig)) * if r2 & 8 == 0 { 1.0 } else { 3.7 }).to_bits(),
                        };
                        (v as u128, 0)
                    }
                    W_FROM_F32 => {
                        let v = match r2 % 6 {
                            0 => r1 as u32,
                            1 => f32::NAN.to_bits(),
                            2 => f32::NEG_INFINITY.to_bits(),
                            _ => ((l.approx(pattern(l, ig)) * if r2 & 8 == 0 { 1.0 } else { 3.7 }) as f32).to_bits(),
                        };
                        (v as u128, 0)
                    }
                    W_FROM_FIXED => {
                        let sel = r2 % 4;
                        (pattern(wrapmodel::FROM_FIXED_SRC[sel as usize], ig), sel)
                    }
                    W_FROM_STR => (0, [10u128, 10, 2, 8, 16][(r1 % 5) as usize]),
                    W_NEG | W_NOT => (0, r2 & 1),
                    W_SUM | W_PRODUCT => (0, (r2 & 1) | if (r2 >> 8) % 4 == 0 { 2 } else { 0 }),
                    _ => (0, 0),
                };
                prog.push((wop, x, y));
            }
            let s = if lit == 0 && !digits.is_empty() {
                let d: String = digits.iter().map(|d| (b'0' + d % 2) as char).collect();
                format!("{}.{}", &d[..d.len() / 2], &d[d.len() / 2..])
            } else if lit == 1 {
                // decimal digit groups on a limb boundary of the parser's accumulator (see vcore::lit)
                format!("{}{}.{}", ["", "-"][(lsel >> 100) as usize & 1], (lsel >> 104) % 3, vcore::lit::limb_carry_fraction(lsel, &digits, 30))
            } else if lit == 2 && !digits.is_empty() {
                // the current layout's value written out in decimal with a random tail
                let d: String = digits.iter().map(|d| (b'0' + d) as char).collect();
                format!("0.{}", d)
            } else {
                LITERALS[lit].to_string()
            };
            let mut a0 = pattern(l, ia);
            if l.w == 128 && lsel & 7 == 0 {
                // first step a multiplication: start value and operand on the column-carry boundary
                if let Some((w, _, _)) = prog.first() {
                    if *w == W_BIN {
                        if let Some((x, y)) = mul_column_boundary(lsel >> 3) {
                            a0 = x;
                            let form = prog[0].2 & !0xff;
                            prog[0] = (W_BIN, y, 2 | form);
                        }
                    }
                }
            }
            Case { op: PROGRAM, lay, a: a0, prog, s, ..Case::default() }
        })
        .boxed()
}

fn eval_program(c: &Case, chk: bool, kf: &Kf) -> Eval {
    use wrapmodel::{model_step, Step};
    let mut ev = Eval::default();
    let l = L::from_idx(c.lay as usize);
    let outs = exec_program(c.lay, c.a & l.mask(), &c.prog, &c.s);
    let get = |name: &str| outs.iter().find(|(n, _)| *n == name).map(|x| x.1.clone());
    let mut cur = c.a & l.mask();
    let mut hist = vec![cur];
    let mut note = format!("start={:#x} ", cur);
    if l.int_bits() == 0 {
        ev.class("int-bits=0");
    }
    for (i, (wop, x, y)) in c.prog.iter().take(MAX_STEPS).enumerate() {
        let got = match get(S_LABELS[i]) {
            Some(g) => g,
            None => {
                ev.fails.push(Fail { label: S_LABELS[i].into(), got: "missing".into(), want: "a value after every step".into() });
                break;
            }
        };
        if note.len() < 220 {
            note.push_str(&format!("{}:{}={} ", i, W_NAMES[*wop as usize % W_NAMES.len()], got.show()));
        }
        ev.class(W_NAMES[*wop as usize % W_NAMES.len()]);
        if matches!(*wop, W_SUM | W_PRODUCT) && y & 2 != 0 {
            ev.class("empty-sum-or-product");
        }
        if *wop == W_SHIFT {
            let kl = vcore::INTS[(y & 0xff) as usize % 12].as_l();
            let amt = kl.val(*x);
            if amt.is_neg() {
                ev.class("shift-negative-amount");
            } else if amt >= Big::from_u64(l.w as u64) {
                ev.class("shift-amount>=width");
            }
        }
        if matches!(*wop, W_BIN | W_INT_OP | W_SHIFT) {
            let form = if *wop == W_SHIFT { (y >> 16) % 6 } else { (y >> 8) % 6 };
            if (1..=3).contains(&form) {
                ev.class("by-reference-form");
            } else if form >= 4 {
                ev.class("assign-form");
            }
        }
        let ms = model_step(l, cur, &hist, *wop, *x, *y, &c.s);
        let mut fail = |ev: &mut Eval, label: &str, got: &Out, want: String| {
            ev.fails.push(Fail { label: format!("{} ({})", label, W_NAMES[*wop as usize % W_NAMES.len()]), got: got.show(), want });
        };
        match ms {
            Step::MayPanic => {
                ev.class(if matches!(*wop, W_FROM_F64 | W_FROM_F32) { "non-finite-float" } else { "zero-divisor" });
                // allowed to unwind; the program ends here either way (state after it is not specified)
                break;
            }
            Step::ParseErr => {
                ev.class("from_str-error");
                if !matches!(got, Out::E(_)) {
                    fail(&mut ev, S_LABELS[i], &got, "Err(_) for a malformed literal, value unchanged".into());
                    break;
                }
            }
            Step::NotAvail => {}
            Step::Val(want, ovf) => {
                // int()/frac() of a layout without integer bits: the property only ties Wrapping<F> to F here
                let want = if matches!(*wop, W_INT | W_FRAC) && l.int_bits() == 0 {
                    match get(D_LABELS[i]) {
                        Some(Out::V(d)) => d,
                        _ => want,
                    }
                } else {
                    want
                };
                if ovf {
                    ev.class("step-overflowed");
                    ev.nontrivial = true;
                }
                if got != Out::V(want) {
                    // the known div_euclid findings (C07) surface through Wrapping as well
                    let known = if matches!(*wop, W_DIV_EUCLID | W_DIV_EUCLID_INT) {
                        let op = if *wop == W_DIV_EUCLID { DIV_EUCLID } else { DIV_EUCLID_INT };
                        kf::matches(kf, "C07", l, op, cur, x & l.mask(), "wrapping", &got, &Exact::Split, chk)
                    } else {
                        None
                    };
                    match (known, &got) {
                        (Some(id), Out::V(v)) => {
                            if !ev.known.contains(&id) {
                                ev.known.push(id);
                            }
                            // resynchronise the model with the library to keep checking the later steps
                            cur = *v;
                            hist.push(cur);
                            continue;
                        }
                        _ => {
                            fail(&mut ev, S_LABELS[i], &got, format!("{:#x} (exact result modulo 2^{}; value before the step {:#x})", want, l.w, cur));
                            break;
                        }
                    }
                }
                // differential: the corresponding wrapping operation on F
                if let Some(Out::V(d)) = get(D_LABELS[i]) {
                    if d != want {
                        fail(&mut ev, D_LABELS[i], &Out::V(d), format!("{:#x} (F's wrapping operation must agree with Wrapping<F>)", want));
                        break;
                    }
                }
                cur = want;
                hist.push(cur);
            }
        }
        if got.is_panic() {
            fail(&mut ev, S_LABELS[i], &got, "no panic (only a zero divisor or a non-finite float may panic)".into());
            break;
        }
    }
    if c.prog.iter().any(|(w, _, _)| *w == W_FROM_STR) {
        ev.class("from_str");
    }
    ev.note = note;
    ev
}

fn int_frac_expect(l: L, a: u128, label: &str) -> Exp {
    if l.int_bits() == 0 {
        return Exp::NoPanic;
    }
    let av = l.val(a);
    let fl = av.shr_floor(l.f).shl(l.f);
    match label {
        "int" => Exp::Is(Out::V(l.wrap(&fl))),
        _ => Exp::Is(Out::V(l.wrap(&(&av - &fl)))),
    }
}

#[allow(clippy::too_many_arguments)]
fn classify(prop: &str, l: L, op: u16, a: u128, b: u128, av: &Big, bv_raw: &Big, ex: &Exact, fits: bool, ev: &mut Eval) {
    let f = l.f;
    let w = l.w;
    if f == 0 {
        ev.class("frac=0");
    }
    if f == w {
        ev.class("frac=w");
    }
    if l.int_bits() == 0 {
        ev.class("int-bits=0");
    }
    if l.int_bits() == 1 {
        ev.class("int-bits=1");
    }
    if w == 128 {
        ev.class("w128");
    }
    let bv = if is_int_rhs(op) { bv_raw.shl(f) } else { bv_raw.clone() };
    let r = match ex {
        Exact::R(r) => Some(r.clone()),
        _ => None,
    };
    match prop {
        "C01" => {
            let min_op = a == l.raw_min() || b == l.raw_min();
            if min_op && l.signed {
                ev.class("min-operand");
            }
            if av.is_neg() && bv.is_neg() {
                ev.class("both-negative");
            }
            if w == 128 && av.bits() > 64 && bv.bits() > 64 {
                ev.class("w128-big-operands");
            }
            if w == 128 && l.signed && (av.is_neg() != bv.is_neg()) && (a as u64) != 0 && (b as u64) != 0 {
                ev.class("w128-mixed-sign-low-limbs");
            }
            let lost = match op {
                MUL => {
                    let p = av * &bv;
                    p != p.shr_floor(f).shl(f)
                }
                _ => !bv.is_zero() && !av.shl(f).rem_trunc(&bv).is_zero(),
            };
            if !lost {
                ev.class("exact");
            }
            if op == MUL && lost && (av.is_neg() != bv.is_neg()) {
                ev.class("neg-product-floored");
            }
            if op == DIV && lost && (av.is_neg() != bv.is_neg()) {
                ev.class("div-opposite-signs-with-remainder");
            }
            if !fits {
                ev.class("not-representable(not asserted)");
            }
            let one = Big::pow2(f);
            if let Some(r) = &r {
                ev.nontrivial = !av.is_zero()
                    && !bv.is_zero()
                    && bv.abs() != one
                    && fits
                    && (lost || r.bits() + 2 >= w || w == 128);
            }
        }
        "C02" => {
            match ex {
                Exact::ZeroDiv => {
                    ev.class("zero-divisor");
                    ev.nontrivial = true;
                }
                Exact::R(r) => {
                    if fits {
                        ev.class("fits");
                    } else if *r > l.hi() {
                        ev.class("overflow-high");
                    } else {
                        ev.class("overflow-low");
                    }
                    let near = (r - &l.hi()).abs() <= Big::from_i64(2) || (r - &l.lo()).abs() <= Big::from_i64(2);
                    ev.nontrivial = !fits || near;
                    if l.signed && a == l.raw_min() && (op == DIV || op == DIV_INT || op == MUL || op == MUL_INT) && bv_raw.to_i128() == Some(-1) {
                        ev.class("min/-1ulp");
                    }
                    if op == NEG || op == ABS {
                        ev.class("unary");
                    }
                }
                _ => {}
            }
        }
        "C06" => {
            let frac_mask = if f == 0 { 0 } else if f == 128 { u128::MAX } else { (1u128 << f) - 1 };
            let fr = a & frac_mask;
            let tie = f >= 1 && fr == 1u128 << (f - 1);
            if tie {
                if av.is_neg() {
                    ev.class("tie-negative");
                } else {
                    ev.class("tie-positive");
                }
                if f < w {
                    if (a >> f) & 1 == 1 {
                        ev.class("tie-odd-integer");
                    } else {
                        ev.class("tie-even-integer");
                    }
                }
            }
            if !fits {
                ev.class("overflow");
                if let Some(r) = &r {
                    if *r == l.hi().add_i64(1) {
                        ev.class("one-past-max");
                    }
                }
            }
            ev.nontrivial = fr != 0 || !fits;
        }
        "C07" => {
            if let Exact::R(r) = ex {
                let rem_nonzero = !bv.is_zero() && !av.rem_trunc(&bv).is_zero();
                if !fits {
                    ev.class("overflow");
                }
                if is_int_rhs(op) && !l.fits(&bv) {
                    ev.class("int-divisor-not-representable");
                }
                if av.is_neg() && rem_nonzero {
                    ev.class("negative-remainder-corrected");
                }
                if (op == DIV_EUCLID || op == DIV_EUCLID_INT) && fits {
                    let tq = av.shl(f).div_trunc(&bv);
                    if !l.fits(&tq) {
                        ev.class("quotient-fits-but-trunc-division-overflows");
                    }
                }
                if (op == DIV_EUCLID || op == DIV_EUCLID_INT) && !l.fits(&Big::pow2(f)) && !r.is_zero() {
                    ev.class("q=+-1-not-representable");
                }
                if l.signed && a == l.raw_min() && bv_raw.to_i128() == Some(-1) {
                    ev.class("min%-1ulp");
                }
                ev.nontrivial = rem_nonzero && !av.is_zero();
            }
        }
        _ => {}
    }
}

pub fn main_entry() {
    std::process::exit(vcore::run::main_with2(&Arith, lay::is_chk(), lay::is_oc()));
}
pub const PROGRAM_OP: u16 = ops::PROGRAM;

#[cfg(test)]
mod column_tests {
    use super::*;
    #[test]
    fn column_boundary_is_exact() {
        let mut found = 0;
        for i in 0..200u128 {
            let r = i.wrapping_mul(0x1234_5678_9abc_def1_0fed_cba9_8765_4321) ^ (i << 90);
            if let Some((a, b)) = mul_column_boundary(r) {
                let (ah, al, bh, bl) = (Big::from_u128(a >> 64), Big::from_u128(a & u64::MAX as u128), Big::from_u128(b >> 64), Big::from_u128(b & u64::MAX as u128));
                let col = &(&(&ah * &bl) + &(&al * &bl).shr_floor(64)) + &(&al * &bh);
                let d = &col - &Big::pow2(128);
                assert!(d.abs() <= Big::from_u64(2) && d <= Big::zero(), "column off by {:?}", d);
                found += 1;
            }
        }
        assert!(found > 150, "found only {}", found);
    }
}
