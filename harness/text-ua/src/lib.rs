//! text engine, part ua (a separate crate only so that it compiles in parallel).
include!("../../shared/text_ops.rs");

pub fn run(st: usize, lay_idx: u16, op: u16, sel: u16, a: u128, b: u128, s: &str, outs: &mut Outs) {
    lay::with_layout_ua!(lay_idx as usize, F => run_text::<F>(st, op, sel, a, b, s, outs))
}
