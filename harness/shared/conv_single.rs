fn run_single<F: VF>(st: usize, op: u16, kind: usize, a: u128, b: u128, outs: &mut Outs) {
    let x = F::from_raw(a);
    match op {
        CONV_FI => {
            lay::with_int!(kind, T => {
                to_num_forms::<F, T>(st, 0, x, |t| <T as IntRaw>::raw(t), outs);
            });
            F::az_to_int(st, 6, x, kind, outs);
        }
        CONV_IF => {
            lay::with_int!(kind, T => {
                let t = <T as IntRaw>::from_raw(b);
                from_num_forms::<F, T>(st, 0, t, outs);
            });
            F::az_from_int(st, 6, kind, b, outs);
        }
        CONV_BF => {
            from_num_forms::<F, bool>(st, 0, b & 1 == 1, outs);
            F::az_from_bool(st, 6, b & 1 == 1, outs);
        }
        CMP_FI => F::cmp_int(st, x, kind, b, outs),
        CMP_F32 => F::cmp_f32(st, x, f32::from_bits(b as u32), outs),
        CMP_F64 => F::cmp_f64(st, x, f64::from_bits(b as u64), outs),
        CMP_F16 => F::cmp_f16(st, x, b as u16, outs),
        CMP_BF16 => F::cmp_bf16(st, x, b as u16, outs),
        CMP_SAME => {
            let y = F::from_raw(b);
            cmp_forms(st, 0, x, y, outs);
            step!(st, outs, 14, "cmp", ordo(Some(x.cmp(&y))));
            step!(st, outs, 15, "max", Out::V(Ord::max(x, y).raw()));
            step!(st, outs, 16, "min", Out::V(Ord::min(x, y).raw()));
            step!(st, outs, 17, "hash_eq", Out::B(hash_of(&x) == hash_of(&y)));
        }
        F32_TO_FIX => {
            from_num_forms::<F, f32>(st, 0, f32::from_bits(b as u32), outs);
            F::az_from_f32(st, 6, f32::from_bits(b as u32), outs);
        }
        F64_TO_FIX => {
            from_num_forms::<F, f64>(st, 0, f64::from_bits(b as u64), outs);
            F::az_from_f64(st, 6, f64::from_bits(b as u64), outs);
        }
        FIX_TO_F32 => {
            to_num_forms::<F, f32>(st, 0, x, |t| t.to_bits() as u128, outs);
            step!(st, outs, 6, "lossy_from:plain", Out::V(F::lossy_f32(x).to_bits() as u128));
            F::az_to_f32(st, 7, x, outs);
        }
        FIX_TO_F64 => {
            to_num_forms::<F, f64>(st, 0, x, |t| t.to_bits() as u128, outs);
            step!(st, outs, 6, "lossy_from:plain", Out::V(F::lossy_f64(x).to_bits() as u128));
            F::az_to_f64(st, 7, x, outs);
        }
        _ => {}
    }
}

