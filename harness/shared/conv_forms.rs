// Calls into the library under test for conversions and comparisons. Calls are
// sequenced with `step!` and run by `vcore::out::drive`, which captures an
// unwind of each call separately (no closure per call: compile time).

#[allow(unused_imports)]
use lay::{IntRaw, VF};
#[allow(unused_imports)]
use std::collections::hash_map::DefaultHasher;
#[allow(unused_imports)]
use std::hash::{Hash, Hasher};
#[allow(unused_imports)]
use substrate_fixed::traits::{FromFixed, LossyFrom, LossyInto, ToFixed};
#[allow(unused_imports)]
use vcore::out::{drive, Outs};
use vcore::{step, Out};

pub const CONV_FF: u16 = 0;
pub const CONV_FI: u16 = 1;
pub const CONV_IF: u16 = 2;
pub const CONV_BF: u16 = 3;
pub const FROM_FF: u16 = 4;
pub const LOSSY_FF: u16 = 5;
pub const CMP_FF: u16 = 6;
pub const CMP_FI: u16 = 7;
pub const CMP_F32: u16 = 8;
pub const CMP_F64: u16 = 9;
pub const CMP_SAME: u16 = 10;
pub const F32_TO_FIX: u16 = 11;
pub const F64_TO_FIX: u16 = 12;
pub const FIX_TO_F32: u16 = 13;
pub const FIX_TO_F64: u16 = 14;
pub const FROM_INT: u16 = 15;
pub const INT_FROM_FIX: u16 = 16;
pub const INT_LOSSY_FIX: u16 = 17;
pub const FROM_BOOL: u16 = 18;
pub const FLOAT_FROM_FIX: u16 = 19;
pub const CMP_F16: u16 = 20;
pub const CMP_BF16: u16 = 21;
pub const OP_NAMES: [&str; 22] = [
    "conv_fixed_fixed", "conv_fixed_int", "conv_int_fixed", "conv_bool_fixed", "from_fixed_fixed", "lossy_fixed_fixed",
    "cmp_fixed_fixed", "cmp_fixed_int", "cmp_f32", "cmp_f64", "cmp_same_type", "f32_to_fixed", "f64_to_fixed", "fixed_to_f32",
    "fixed_to_f64", "from_int_infallible", "int_from_fixed_infallible", "int_lossy_from_fixed", "from_bool_infallible",
    "float_from_fixed_infallible", "cmp_f16", "cmp_bf16",
];

#[allow(dead_code)]
fn ordo(o: Option<core::cmp::Ordering>) -> Out {
    lay::ord_out(o)
}

/// `src.to_num::<T>()` family (steps base..base+6)
#[allow(dead_code)]
#[inline(always)]
fn to_num_forms<S: VF, T: FromFixed + Copy>(st: usize, base: usize, a: S, raw: fn(T) -> u128, outs: &mut Outs) {
    step!(st, outs, base, "to_num:plain", Out::V(raw(a.to_num::<T>())));
    step!(st, outs, base + 1, "to_num:checked", Out::O(a.checked_to_num::<T>().map(raw)));
    step!(st, outs, base + 2, "to_num:saturating", Out::V(raw(a.saturating_to_num::<T>())));
    step!(st, outs, base + 3, "to_num:wrapping", Out::V(raw(a.wrapping_to_num::<T>())));
    step!(st, outs, base + 4, "to_num:overflowing", {
        let (v, o) = a.overflowing_to_num::<T>();
        Out::F(raw(v), o)
    });
    step!(st, outs, base + 5, "to_num:Wrapping", Out::V(raw(substrate_fixed::Wrapping(a).to_num::<T>())));
}
/// `D::from_num(t)` family
#[allow(dead_code)]
#[inline(always)]
fn from_num_forms<D: VF, T: ToFixed + Copy>(st: usize, base: usize, t: T, outs: &mut Outs) {
    step!(st, outs, base, "from_num:plain", Out::V(D::from_num(t).raw()));
    step!(st, outs, base + 1, "from_num:checked", Out::O(D::checked_from_num(t).map(|x| x.raw())));
    step!(st, outs, base + 2, "from_num:saturating", Out::V(D::saturating_from_num(t).raw()));
    step!(st, outs, base + 3, "from_num:wrapping", Out::V(D::wrapping_from_num(t).raw()));
    step!(st, outs, base + 4, "from_num:overflowing", {
        let (v, o) = D::overflowing_from_num(t);
        Out::F(v.raw(), o)
    });
    step!(st, outs, base + 5, "from_num:Wrapping", Out::V(substrate_fixed::Wrapping::<D>::from_num(t).0.raw()));
}
/// all six operators and partial_cmp in both operand orders (steps base..base+14)
#[allow(dead_code)]
#[inline(always)]
fn cmp_forms<X: Copy + PartialOrd<Y>, Y: Copy + PartialOrd<X>>(st: usize, base: usize, x: X, y: Y, outs: &mut Outs) {
    step!(st, outs, base, "eq", Out::B(x == y));
    step!(st, outs, base + 1, "ne", Out::B(x != y));
    step!(st, outs, base + 2, "lt", Out::B(x < y));
    step!(st, outs, base + 3, "le", Out::B(x <= y));
    step!(st, outs, base + 4, "gt", Out::B(x > y));
    step!(st, outs, base + 5, "ge", Out::B(x >= y));
    step!(st, outs, base + 6, "partial_cmp", ordo(x.partial_cmp(&y)));
    step!(st, outs, base + 7, "r_eq", Out::B(y == x));
    step!(st, outs, base + 8, "r_ne", Out::B(y != x));
    step!(st, outs, base + 9, "r_lt", Out::B(y < x));
    step!(st, outs, base + 10, "r_le", Out::B(y <= x));
    step!(st, outs, base + 11, "r_gt", Out::B(y > x));
    step!(st, outs, base + 12, "r_ge", Out::B(y >= x));
    step!(st, outs, base + 13, "r_partial_cmp", ordo(y.partial_cmp(&x)));
}

#[allow(dead_code)]
fn hash_of<T: Hash>(x: &T) -> u64 {
    let mut h = DefaultHasher::new();
    x.hash(&mut h);
    h.finish()
}

