// Calls into the library under test for parsing (C08), formatting (C09) and
// SCALE / byte views / serde (C10).

use codec::{Decode, DecodeAll, DecodeLimit, Encode, MaxEncodedLen};
use lay::VF;
use std::fmt;
use std::str::FromStr;
use substrate_fixed::Wrapping;
use vcore::fmtspec::{render, Spec};
use vcore::out::Outs;
use vcore::{step, Out};

pub const PARSE: u16 = 0;
pub const FMT: u16 = 1;
pub const BYTES: u16 = 2;
pub const OP_NAMES: [&str; 3] = ["parse", "format", "bytes"];
pub const TRAIT_NAMES: [&str; 6] = ["Display", "Debug", "Binary", "Octal", "LowerHex", "UpperHex"];

fn res<F: VF, E: fmt::Display>(r: Result<F, E>) -> Out {
    match r {
        Ok(v) => Out::V(v.raw()),
        Err(e) => Out::E(e.to_string()),
    }
}
fn resf<F: VF, E: fmt::Display>(r: Result<(F, bool), E>) -> Out {
    match r {
        Ok((v, o)) => Out::F(v.raw(), o),
        Err(e) => Out::E(e.to_string()),
    }
}
/// a SCALE input that cannot say how many bytes remain (like `codec::IoReader` over a stream)
struct Stream<'a> {
    data: &'a [u8],
    pos: usize,
}
impl<'a> codec::Input for Stream<'a> {
    fn remaining_len(&mut self) -> Result<Option<usize>, codec::Error> {
        Ok(None)
    }
    fn read(&mut self, into: &mut [u8]) -> Result<(), codec::Error> {
        if into.len() > self.data.len() - self.pos {
            return Err("end of stream".into());
        }
        into.copy_from_slice(&self.data[self.pos..self.pos + into.len()]);
        self.pos += into.len();
        Ok(())
    }
}

fn sres(r: Result<String, fmt::Error>) -> Out {
    match r {
        Ok(s) => Out::S(s),
        Err(_) => Out::E("fmt::Error".into()),
    }
}

pub fn run_text<F>(st: usize, op: u16, sel: u16, a: u128, b: u128, s: &str, outs: &mut Outs)
where
    F: VF + Encode + Decode + MaxEncodedLen + serde::Serialize + serde::de::DeserializeOwned,
    F::Bits: Encode + Decode + Copy,
    Wrapping<F>: serde::Serialize + serde::de::DeserializeOwned,
{
    match op {
        PARSE => match sel {
            2 => {
                step!(st, outs, 0, "plain", res(F::from_str_binary(s)));
                step!(st, outs, 1, "saturating", res(F::saturating_from_str_binary(s)));
                step!(st, outs, 2, "wrapping", res(F::wrapping_from_str_binary(s)));
                step!(st, outs, 3, "overflowing", resf(F::overflowing_from_str_binary(s)));
                step!(st, outs, 4, "Wrapping::from_str_radix", res(Wrapping::<F>::from_str_binary(s).map(|w| w.0)));
            }
            8 => {
                step!(st, outs, 0, "plain", res(F::from_str_octal(s)));
                step!(st, outs, 1, "saturating", res(F::saturating_from_str_octal(s)));
                step!(st, outs, 2, "wrapping", res(F::wrapping_from_str_octal(s)));
                step!(st, outs, 3, "overflowing", resf(F::overflowing_from_str_octal(s)));
                step!(st, outs, 4, "Wrapping::from_str_radix", res(Wrapping::<F>::from_str_octal(s).map(|w| w.0)));
            }
            16 => {
                step!(st, outs, 0, "plain", res(F::from_str_hex(s)));
                step!(st, outs, 1, "saturating", res(F::saturating_from_str_hex(s)));
                step!(st, outs, 2, "wrapping", res(F::wrapping_from_str_hex(s)));
                step!(st, outs, 3, "overflowing", resf(F::overflowing_from_str_hex(s)));
                step!(st, outs, 4, "Wrapping::from_str_radix", res(Wrapping::<F>::from_str_hex(s).map(|w| w.0)));
            }
            _ => {
                step!(st, outs, 0, "plain", res(F::from_str(s)));
                step!(st, outs, 1, "saturating", res(F::saturating_from_str(s)));
                step!(st, outs, 2, "wrapping", res(F::wrapping_from_str(s)));
                step!(st, outs, 3, "overflowing", resf(F::overflowing_from_str(s)));
                step!(st, outs, 4, "parse()", res(s.parse::<F>()));
                // the wrapping form reached through `Wrapping<F>`'s own `FromStr` impl
                step!(st, outs, 5, "Wrapping.parse()", res(s.parse::<Wrapping<F>>().map(|w| w.0)));
                step!(st, outs, 6, "Wrapping::from_str", res(<Wrapping<F> as core::str::FromStr>::from_str(s).map(|w| w.0)));
            }
        },
        FMT => {
            let x = F::from_raw(a);
            let spec = Spec::unpack(b);
            let call = |f: &mut fmt::Formatter<'_>| -> fmt::Result {
                match sel {
                    0 => fmt::Display::fmt(&x, f),
                    1 => fmt::Debug::fmt(&x, f),
                    2 => fmt::Binary::fmt(&x, f),
                    3 => fmt::Octal::fmt(&x, f),
                    4 => fmt::LowerHex::fmt(&x, f),
                    _ => fmt::UpperHex::fmt(&x, f),
                }
            };
            step!(st, outs, 0, "plain", sres(render(spec.plain(), &call)));
            step!(st, outs, 1, "flags", sres(render(spec, &call)));
            step!(st, outs, 2, "roundtrip", {
                if sel <= 1 && spec.prec.is_none() {
                    match render(spec.plain(), &call) {
                        Ok(t) => res(F::from_str(&t)),
                        Err(_) => Out::E("fmt::Error".into()),
                    }
                } else {
                    Out::Na
                }
            });
            step!(st, outs, 3, "to_string", if sel == 0 && spec.prec.is_none() { Out::S(x.to_string()) } else { Out::Na });
            // Debug reached through `{:x?}` / `{:X?}`: still the decimal expansion (flags affect only padding and prefixes)
            step!(st, outs, 4, "debug_x?", if sel == 1 { sres(vcore::fmtspec::render_dbghex(spec, false, &call)) } else { Out::Na });
            step!(st, outs, 5, "debug_X?", if sel == 1 { sres(vcore::fmtspec::render_dbghex(spec, true, &call)) } else { Out::Na });
        }
        _ => {
            let x = F::from_raw(a);
            let n = (F::LAY.w / 8) as usize;
            step!(st, outs, 0, "encode", Out::Y(x.encode()));
            step!(st, outs, 1, "encode_bits", Out::Y(x.to_bits().encode()));
            step!(st, outs, 2, "to_le_bytes", Out::Y(F::to_bytes(x, 0)));
            step!(st, outs, 3, "to_be_bytes", Out::Y(F::to_bytes(x, 1)));
            step!(st, outs, 4, "to_ne_bytes", Out::Y(F::to_bytes(x, 2)));
            step!(st, outs, 5, "encoded_size", Out::V(x.encoded_size() as u128));
            step!(st, outs, 6, "max_encoded_len", Out::V(F::max_encoded_len() as u128));
            step!(st, outs, 7, "decode(encode)", Out::O(F::decode(&mut &x.encode()[..]).ok().map(|v| v.raw())));
            step!(st, outs, 8, "from_le(to_le)", Out::V(F::from_bytes(&F::to_bytes(x, 0), 0).raw()));
            step!(st, outs, 9, "from_be(to_be)", Out::V(F::from_bytes(&F::to_bytes(x, 1), 1).raw()));
            step!(st, outs, 10, "from_ne(to_ne)", Out::V(F::from_bytes(&F::to_bytes(x, 2), 2).raw()));
            step!(st, outs, 11, "from_bits(to_bits)", Out::V(F::from_bits(x.to_bits()).raw()));
            step!(st, outs, 12, "to_bits", Out::V(F::bits_raw(x.to_bits())));
            step!(st, outs, 13, "wrapping_bits", Out::V(F::bits_raw(Wrapping::<F>::from_bits(x.to_bits()).to_bits())));
            step!(st, outs, 14, "wrapping_field", Out::V(Wrapping::<F>::from_bits(x.to_bits()).0.raw()));
            step!(st, outs, 15, "serde_json", match serde_json::to_string(&x) {
                Ok(t) => Out::S(t),
                Err(e) => Out::E(e.to_string()),
            });
            step!(st, outs, 16, "serde_back", match serde_json::to_string(&x).ok().and_then(|t| serde_json::from_str::<F>(&t).ok()) {
                Some(v) => Out::O(Some(v.raw())),
                None => Out::O(None),
            });
            step!(st, outs, 17, "serde_wrapping", match serde_json::to_string(&Wrapping(x)) {
                Ok(t) => Out::S(t),
                Err(e) => Out::E(e.to_string()),
            });
            step!(st, outs, 18, "serde_wrapping_back", match serde_json::to_string(&Wrapping(x)).ok().and_then(|t| serde_json::from_str::<Wrapping<F>>(&t).ok()) {
                Some(v) => Out::O(Some(v.0.raw())),
                None => Out::O(None),
            });
            // decoding generated input bytes (hex in `s`): value and bytes consumed
            let input: Vec<u8> = (0..s.len() / 2).filter_map(|i| u8::from_str_radix(&s[2 * i..2 * i + 2], 16).ok()).collect();
            step!(st, outs, 19, "decode_input", {
                let mut sl = &input[..];
                match F::decode(&mut sl) {
                    Ok(v) => Out::F(v.raw(), input.len() - sl.len() == n),
                    Err(_) => Out::O(None),
                }
            });
            step!(st, outs, 20, "from_le_input", if input.len() >= n { Out::V(F::from_bytes(&input[..n], 0).raw()) } else { Out::Na });
            step!(st, outs, 21, "from_be_input", if input.len() >= n { Out::V(F::from_bytes(&input[..n], 1).raw()) } else { Out::Na });
            step!(st, outs, 22, "serde_from_bits_json", {
                // {"bits": <integer>} written by the harness must deserialise to the same value
                let t = format!("{{\"bits\":{}}}", F::LAY.val(a));
                match serde_json::from_str::<F>(&t) {
                    Ok(v) => Out::O(Some(v.raw())),
                    Err(_) => Out::O(None),
                }
            });
            step!(st, outs, 23, "decode_stream", {
                let mut inp = Stream { data: &input, pos: 0 };
                match F::decode(&mut inp) {
                    Ok(v) => Out::F(v.raw(), inp.pos == n),
                    Err(_) => Out::O(None),
                }
            });
            step!(st, outs, 24, "decode_stream(encode)", {
                let e = x.encode();
                Out::O(F::decode(&mut Stream { data: &e, pos: 0 }).ok().map(|v| v.raw()))
            });
            // inside composite values: a record and a sequence
            step!(st, outs, 25, "encode_record", Out::Y((7u8, x, 0xBEEFu16).encode()));
            step!(st, outs, 26, "decode_record", {
                let e = (7u8, x, 0xBEEFu16).encode();
                match <(u8, F, u16)>::decode(&mut Stream { data: &e, pos: 0 }) {
                    Ok((7, v, 0xBEEF)) => Out::O(Some(v.raw())),
                    _ => Out::O(None),
                }
            });
            step!(st, outs, 27, "encode_vec", Out::Y(vec![x, x].encode()));
            step!(st, outs, 28, "decode_vec", {
                let e = vec![x, x].encode();
                match <Vec<F>>::decode(&mut &e[..]) {
                    Ok(v) if v.len() == 2 && v[0].raw() == v[1].raw() => Out::O(Some(v[0].raw())),
                    _ => Out::O(None),
                }
            });
            // the other decoding entry points of the codec, differentially against the underlying integer: the fixed
            // value must decode exactly where the integer with the same bytes does (depth limits 0..2, bare / in a Vec)
            step!(st, outs, 29, "decode_all(encode)", Out::O(F::decode_all(&mut &x.encode()[..]).ok().map(|v| v.raw())));
            step!(st, outs, 30, "decode_limits_like_integer", {
                let e = x.encode();
                let ev = vec![x, x].encode();
                let mut differ = 0u128;
                for limit in 0..3u32 {
                    let f = F::decode_with_depth_limit(limit, &mut &e[..]).ok().map(|v| v.raw());
                    let i = <F::Bits>::decode_with_depth_limit(limit, &mut &e[..]).ok().map(F::bits_raw);
                    let fa = F::decode_all_with_depth_limit(limit, &mut &e[..]).ok().map(|v| v.raw());
                    let ia = <F::Bits>::decode_all_with_depth_limit(limit, &mut &e[..]).ok().map(F::bits_raw);
                    let fv = <Vec<F>>::decode_with_depth_limit(limit, &mut &ev[..]).ok().map(|v| v.iter().map(|y| y.raw()).collect::<Vec<_>>());
                    let iv = <Vec<F::Bits>>::decode_with_depth_limit(limit, &mut &ev[..]).ok().map(|v| v.iter().map(|y| F::bits_raw(*y)).collect::<Vec<_>>());
                    // a Vec needs one level for itself; with no budget at all the codec's fast path for primitive
                    // elements and its generic path differ already on the unchanged library, so that is not compared
                    let vec_differs = limit >= 1 && fv != iv;
                    differ |= ((f != i) as u128 | ((fa != ia) as u128) << 1 | (vec_differs as u128) << 2) << (4 * limit);
                }
                // bit 4*limit: bare value, +1: decode_all, +2: inside a Vec
                Out::V(differ)
            });
            // the codec's container decoders reach a value through `Decode::decode_into` / `skip` / `encoded_fixed_size`
            // rather than `decode`: boxes, reference-counted pointers, arrays, options, nested records
            step!(st, outs, 41, "decode_box", Out::O(<Box<F>>::decode(&mut &x.encode()[..]).ok().map(|v| v.raw())));
            step!(st, outs, 42, "decode_rc", Out::O(<std::rc::Rc<F>>::decode(&mut &x.encode()[..]).ok().map(|v| v.raw())));
            step!(st, outs, 43, "decode_arc", Out::O(<std::sync::Arc<F>>::decode(&mut &x.encode()[..]).ok().map(|v| v.raw())));
            step!(st, outs, 44, "decode_array", {
                let e = [x, x, x].encode();
                match <[F; 3]>::decode(&mut Stream { data: &e, pos: 0 }) {
                    Ok(v) if v[0].raw() == v[1].raw() && v[1].raw() == v[2].raw() => Out::O(Some(v[0].raw())),
                    _ => Out::O(None),
                }
            });
            step!(st, outs, 45, "encode_array", Out::Y([x, x, x].encode()));
            step!(st, outs, 46, "decode_option", Out::O(<Option<F>>::decode(&mut &Some(x).encode()[..]).ok().flatten().map(|v| v.raw())));
            step!(st, outs, 47, "decode_boxed_record", Out::O(<Box<(u8, [F; 2], u16)>>::decode(&mut &(9u8, [x, x], 0x1234u16).encode()[..]).ok().and_then(|v| if v.0 == 9 && v.2 == 0x1234 && v.1[0].raw() == v.1[1].raw() { Some(v.1[0].raw()) } else { None })));
            step!(st, outs, 48, "skip_then_decode", {
                // Decode::skip over the first value, then decode the second
                let mut e = F::from_raw(!a).encode();
                e.extend_from_slice(&x.encode());
                let mut inp = &e[..];
                match F::skip(&mut inp) {
                    Ok(()) => Out::O(F::decode(&mut inp).ok().map(|v| v.raw())),
                    Err(_) => Out::O(None),
                }
            });
            step!(st, outs, 49, "encoded_fixed_size", Out::O(F::encoded_fixed_size().map(|n| n as u128)));
            step!(st, outs, 50, "encode_to", {
                let mut v: Vec<u8> = vec![0xAA];
                x.encode_to(&mut v);
                Out::Y(v)
            });
            step!(st, outs, 51, "size_hint", Out::V(x.size_hint() as u128));
            // the closure-based encoding entry point (storage writes and key hashing use it) and the adapters built on it
            step!(st, outs, 52, "using_encoded", Out::Y(x.using_encoded(|b| b.to_vec())));
            step!(st, outs, 53, "using_encoded(ref)", Out::Y((&x).using_encoded(|b| b.to_vec())));
            step!(st, outs, 54, "using_encoded(box)", Out::Y(Box::new(x).using_encoded(|b| b.to_vec())));
            step!(st, outs, 55, "using_encoded(tuple1)", Out::Y((x,).using_encoded(|b| b.to_vec())));
            step!(st, outs, 56, "to_keyed_vec", Out::Y(codec::KeyedVec::to_keyed_vec(&x, &[0xAAu8])));
            step!(st, outs, 57, "joiner_and", Out::Y(codec::Joiner::and(vec![0xAAu8], &x)));
            step!(st, outs, 58, "encode(ref)", Out::Y((&x).encode()));
            step!(st, outs, 59, "encode(arc)", Out::Y(std::sync::Arc::new(x).encode()));
            step!(st, outs, 60, "encoded_size(box)", Out::V(Box::new(x).encoded_size() as u128));
            // the serde data model itself, recorded by a serializer that answers is_human_readable() either way: one record
            // with the single field `bits` holding the integer; and played back through a self-describing deserializer
            for (k, human) in [(0usize, true), (1usize, false)] {
                let lab = [["serde_model(human)", "serde_model(binary)"], ["serde_model_wrapping(human)", "serde_model_wrapping(binary)"],
                           ["serde_model_back(human)", "serde_model_back(binary)"], ["serde_model_wrapping_back(human)", "serde_model_wrapping_back(binary)"],
                           ["serde_model_play(human)", "serde_model_play(binary)"]];
                let show = |t: Result<sermodel::Tok, sermodel::Err_>| match t {
                    Ok(t) => match t.bits_record() {
                        Some((v, true)) => Out::S(format!("{}", v)),
                        Some((v, false)) => Out::S(format!("{}", v as u128)),
                        None => Out::E(t.show()),
                    },
                    Err(e) => Out::E(e.to_string()),
                };
                step!(st, outs, 31 + 5 * k, lab[0][k], show(sermodel::record(&x, human)));
                step!(st, outs, 32 + 5 * k, lab[1][k], show(sermodel::record(&Wrapping(x), human)));
                step!(st, outs, 33 + 5 * k, lab[2][k], Out::O(sermodel::record(&x, human).ok().and_then(|t| sermodel::play::<F>(&t, human).ok()).map(|v| v.raw())));
                step!(st, outs, 34 + 5 * k, lab[3][k], Out::O(sermodel::record(&Wrapping(x), human).ok().and_then(|t| sermodel::play::<Wrapping<F>>(&t, human).ok()).map(|v| v.0.raw())));
                step!(st, outs, 35 + 5 * k, lab[4][k], {
                    // a record written by the harness: struct {bits: <the underlying integer type>}
                    let l = F::LAY;
                    let kind: &'static str = match (l.signed, l.w) {
                        (true, 8) => "i8", (true, 16) => "i16", (true, 32) => "i32", (true, 64) => "i64", (true, _) => "i128",
                        (false, 8) => "u8", (false, 16) => "u16", (false, 32) => "u32", (false, 64) => "u64", (false, _) => "u128",
                    };
                    let sx = if l.signed && l.w < 128 && (a >> (l.w - 1)) & 1 == 1 { a | (!0u128 << l.w) } else { a };
                    let t = sermodel::Tok::Struct("Record".into(), vec![("bits".into(), sermodel::Tok::Int(kind, sx, l.signed && (sx as i128) < 0))]);
                    Out::O(sermodel::play::<F>(&t, human).ok().map(|v| v.raw()))
                });
            }
        }
    }
}
