// Calls into the library under test: every form of every arithmetic / rounding
// operation, sequenced with `step!` and run by `vcore::out::drive` (an unwind of
// each call is captured separately, without a closure per call).

#[allow(unused_imports)]
use lay::VF;
#[allow(unused_imports)]
use substrate_fixed::traits::{FixedSigned, FixedUnsigned};
use substrate_fixed::Wrapping;
use vcore::out::Outs;
use vcore::{step, Out};

pub const ADD: u16 = 0;
pub const SUB: u16 = 1;
pub const MUL: u16 = 2;
pub const DIV: u16 = 3;
pub const REM: u16 = 4;
pub const DIV_EUCLID: u16 = 5;
pub const REM_EUCLID: u16 = 6;
pub const MUL_INT: u16 = 7;
pub const DIV_INT: u16 = 8;
pub const REM_INT: u16 = 9;
pub const DIV_EUCLID_INT: u16 = 10;
pub const REM_EUCLID_INT: u16 = 11;
pub const NEG: u16 = 12;
pub const ABS: u16 = 13;
pub const CEIL: u16 = 14;
pub const FLOOR: u16 = 15;
pub const ROUND: u16 = 16;
pub const ROUND_TE: u16 = 17;
pub const ROUND_TO_ZERO: u16 = 18;
pub const INT: u16 = 19;
pub const NOPS: u16 = 20;

pub const OP_NAMES: [&str; NOPS as usize] = [
    "add", "sub", "mul", "div", "rem", "div_euclid", "rem_euclid", "mul_int", "div_int", "rem_int", "div_euclid_int",
    "rem_euclid_int", "neg", "abs", "ceil", "floor", "round", "round_ties_to_even", "round_to_zero", "int_frac",
];

pub fn is_int_rhs(op: u16) -> bool {
    (MUL_INT..=REM_EUCLID_INT).contains(&op)
}
pub fn is_unary(op: u16) -> bool {
    op >= NEG
}


#[inline]
fn v<F: VF>(x: F) -> Out {
    Out::V(x.raw())
}
#[inline]
fn o<F: VF>(x: Option<F>) -> Out {
    Out::O(x.map(|y| y.raw()))
}
#[inline]
fn fl<F: VF>(x: (F, bool)) -> Out {
    Out::F(x.0.raw(), x.1)
}

#[inline(always)]
fn ref_forms<F: VF>(st: usize, base: usize, outs: &mut Outs, a: F, b: F, op: u8) {
    step!(st, outs, base, "ref&&", v(F::ref_op(a, b, op, 0)));
    step!(st, outs, base + 1, "ref&v", v(F::ref_op(a, b, op, 1)));
    step!(st, outs, base + 2, "refv&", v(F::ref_op(a, b, op, 2)));
    step!(st, outs, base + 3, "assign", v(F::ref_op(a, b, op, 3)));
    step!(st, outs, base + 4, "assign&", v(F::ref_op(a, b, op, 4)));
}
#[inline(always)]
fn ref_forms_int<F: VF>(st: usize, base: usize, outs: &mut Outs, a: F, n: F::Bits, op: u8)
where
    F::Bits: Copy,
{
    step!(st, outs, base, "ref&&", v(F::ref_op_int(a, n, op, 0)));
    step!(st, outs, base + 1, "ref&v", v(F::ref_op_int(a, n, op, 1)));
    step!(st, outs, base + 2, "refv&", v(F::ref_op_int(a, n, op, 2)));
    step!(st, outs, base + 3, "assign", v(F::ref_op_int(a, n, op, 3)));
    step!(st, outs, base + 4, "assign&", v(F::ref_op_int(a, n, op, 4)));
}
#[allow(deprecated)]
pub fn run_common<F: VF>(st: usize, op: u16, ar: u128, br: u128, outs: &mut Outs)
where
    F::Bits: Copy,
{
    let a = F::from_raw(ar);
    let b = F::from_raw(br);
    let n = F::bits_from_raw(br);
    match op {
        ADD => {
            step!(st, outs, 0, "checked", o(a.checked_add(b)));
            step!(st, outs, 1, "saturating", v(a.saturating_add(b)));
            step!(st, outs, 2, "wrapping", v(a.wrapping_add(b)));
            step!(st, outs, 3, "overflowing", fl(a.overflowing_add(b)));
            step!(st, outs, 4, "plain", v(a + b));
            ref_forms(st, 5, outs, a, b, 0);
            step!(st, outs, 10, "Wrapping", v(F::w_bin(Wrapping(a), Wrapping(b), 0, 0).0));
            step!(st, outs, 11, "iter:sum", v(F::f_sum(&[a, b], false)));
            step!(st, outs, 12, "iter:sum&", v(F::f_sum(&[a, b], true)));
        }
        SUB => {
            step!(st, outs, 0, "checked", o(a.checked_sub(b)));
            step!(st, outs, 1, "saturating", v(a.saturating_sub(b)));
            step!(st, outs, 2, "wrapping", v(a.wrapping_sub(b)));
            step!(st, outs, 3, "overflowing", fl(a.overflowing_sub(b)));
            step!(st, outs, 4, "plain", v(a - b));
            ref_forms(st, 5, outs, a, b, 1);
            step!(st, outs, 10, "Wrapping", v(F::w_bin(Wrapping(a), Wrapping(b), 1, 0).0));
        }
        MUL => {
            step!(st, outs, 0, "checked", o(a.checked_mul(b)));
            step!(st, outs, 1, "saturating", v(a.saturating_mul(b)));
            step!(st, outs, 2, "wrapping", v(a.wrapping_mul(b)));
            step!(st, outs, 3, "overflowing", fl(a.overflowing_mul(b)));
            step!(st, outs, 4, "plain", v(a * b));
            ref_forms(st, 5, outs, a, b, 2);
            step!(st, outs, 10, "Wrapping", v(F::w_bin(Wrapping(a), Wrapping(b), 2, 0).0));
            step!(st, outs, 11, "iter:product", v(F::f_product(&[a, b], false)));
            step!(st, outs, 12, "iter:product&", v(F::f_product(&[a, b], true)));
        }
        DIV => {
            step!(st, outs, 0, "checked", o(a.checked_div(b)));
            step!(st, outs, 1, "saturating", v(a.saturating_div(b)));
            step!(st, outs, 2, "wrapping", v(a.wrapping_div(b)));
            step!(st, outs, 3, "overflowing", fl(a.overflowing_div(b)));
            step!(st, outs, 4, "plain", v(a / b));
            ref_forms(st, 5, outs, a, b, 3);
            step!(st, outs, 10, "Wrapping", v(F::w_bin(Wrapping(a), Wrapping(b), 3, 0).0));
        }
        REM => {
            step!(st, outs, 0, "checked", o(a.checked_rem(b)));
            step!(st, outs, 1, "plain", v(a % b));
            ref_forms(st, 2, outs, a, b, 4);
            step!(st, outs, 7, "Wrapping", v(F::w_bin(Wrapping(a), Wrapping(b), 4, 0).0));
        }
        DIV_EUCLID => {
            step!(st, outs, 0, "checked", o(a.checked_div_euclid(b)));
            step!(st, outs, 1, "saturating", v(a.saturating_div_euclid(b)));
            step!(st, outs, 2, "wrapping", v(a.wrapping_div_euclid(b)));
            step!(st, outs, 3, "overflowing", fl(a.overflowing_div_euclid(b)));
            step!(st, outs, 4, "plain", v(a.div_euclid(b)));
        }
        REM_EUCLID => {
            step!(st, outs, 0, "checked", o(a.checked_rem_euclid(b)));
            step!(st, outs, 1, "plain", v(a.rem_euclid(b)));
            step!(st, outs, 2, "Wrapping", v(Wrapping(a).rem_euclid(Wrapping(b)).0));
        }
        MUL_INT => {
            step!(st, outs, 0, "checked", o(a.checked_mul_int(n)));
            step!(st, outs, 1, "saturating", v(a.saturating_mul_int(n)));
            step!(st, outs, 2, "wrapping", v(a.wrapping_mul_int(n)));
            step!(st, outs, 3, "overflowing", fl(a.overflowing_mul_int(n)));
            step!(st, outs, 4, "plain", v(a * n));
            ref_forms_int(st, 5, outs, a, n, 2);
            step!(st, outs, 10, "Wrapping", v(F::w_int(Wrapping(a), n, 2, 0).0));
        }
        DIV_INT => {
            step!(st, outs, 0, "checked", o(a.checked_div_int(n)));
            step!(st, outs, 1, "wrapping", v(a.wrapping_div_int(n)));
            step!(st, outs, 2, "overflowing", fl(a.overflowing_div_int(n)));
            step!(st, outs, 3, "plain", v(a / n));
            ref_forms_int(st, 4, outs, a, n, 3);
            step!(st, outs, 9, "Wrapping", v(F::w_int(Wrapping(a), n, 3, 0).0));
        }
        REM_INT => {
            step!(st, outs, 0, "checked", o(a.checked_rem_int(n)));
            step!(st, outs, 1, "wrapping", v(a.wrapping_rem_int(n)));
            step!(st, outs, 2, "overflowing", fl(a.overflowing_rem_int(n)));
            step!(st, outs, 3, "plain", v(a % n));
            ref_forms_int(st, 4, outs, a, n, 4);
            step!(st, outs, 9, "Wrapping", v(F::w_int(Wrapping(a), n, 4, 0).0));
        }
        DIV_EUCLID_INT => {
            step!(st, outs, 0, "checked", o(a.checked_div_euclid_int(n)));
            step!(st, outs, 1, "wrapping", v(a.wrapping_div_euclid_int(n)));
            step!(st, outs, 2, "overflowing", fl(a.overflowing_div_euclid_int(n)));
            step!(st, outs, 3, "plain", v(a.div_euclid_int(n)));
        }
        REM_EUCLID_INT => {
            step!(st, outs, 0, "checked", o(a.checked_rem_euclid_int(n)));
            step!(st, outs, 1, "wrapping", v(a.wrapping_rem_euclid_int(n)));
            step!(st, outs, 2, "overflowing", fl(a.overflowing_rem_euclid_int(n)));
            step!(st, outs, 3, "plain", v(a.rem_euclid_int(n)));
            step!(st, outs, 4, "Wrapping", v(Wrapping(a).rem_euclid_int(n).0));
        }
        NEG => {
            step!(st, outs, 0, "checked", o(a.checked_neg()));
            step!(st, outs, 1, "saturating", v(a.saturating_neg()));
            step!(st, outs, 2, "wrapping", v(a.wrapping_neg()));
            step!(st, outs, 3, "overflowing", fl(a.overflowing_neg()));
        }
        CEIL => {
            step!(st, outs, 0, "checked", o(a.checked_ceil()));
            step!(st, outs, 1, "saturating", v(a.saturating_ceil()));
            step!(st, outs, 2, "wrapping", v(a.wrapping_ceil()));
            step!(st, outs, 3, "overflowing", fl(a.overflowing_ceil()));
            step!(st, outs, 4, "plain", v(a.ceil()));
            step!(st, outs, 5, "Wrapping", v(Wrapping(a).ceil().0));
        }
        FLOOR => {
            step!(st, outs, 0, "checked", o(a.checked_floor()));
            step!(st, outs, 1, "saturating", v(a.saturating_floor()));
            step!(st, outs, 2, "wrapping", v(a.wrapping_floor()));
            step!(st, outs, 3, "overflowing", fl(a.overflowing_floor()));
            step!(st, outs, 4, "plain", v(a.floor()));
            step!(st, outs, 5, "Wrapping", v(Wrapping(a).floor().0));
        }
        ROUND => {
            step!(st, outs, 0, "checked", o(a.checked_round()));
            step!(st, outs, 1, "saturating", v(a.saturating_round()));
            step!(st, outs, 2, "wrapping", v(a.wrapping_round()));
            step!(st, outs, 3, "overflowing", fl(a.overflowing_round()));
            step!(st, outs, 4, "plain", v(a.round()));
            step!(st, outs, 5, "Wrapping", v(Wrapping(a).round().0));
        }
        ROUND_TE => {
            step!(st, outs, 0, "checked", o(a.checked_round_ties_to_even()));
            step!(st, outs, 1, "saturating", v(a.saturating_round_ties_to_even()));
            step!(st, outs, 2, "wrapping", v(a.wrapping_round_ties_to_even()));
            step!(st, outs, 3, "overflowing", fl(a.overflowing_round_ties_to_even()));
            step!(st, outs, 4, "plain", v(a.round_ties_to_even()));
            step!(st, outs, 5, "Wrapping", v(Wrapping(a).round_ties_to_even().0));
        }
        ROUND_TO_ZERO => {
            step!(st, outs, 0, "plain", v(a.round_to_zero()));
            step!(st, outs, 1, "Wrapping", v(Wrapping(a).round_to_zero().0));
        }
        INT => {
            step!(st, outs, 0, "int", v(a.int()));
            step!(st, outs, 1, "frac", v(a.frac()));
        }
        _ => {}
    }
}


pub fn run_signed<F: VF + FixedSigned>(st: usize, op: u16, ar: u128, br: u128, outs: &mut Outs)
where
    F::Bits: Copy,
{
    let a = F::from_raw(ar);
    match op {
        NEG => {
            run_common::<F>(st, op, ar, br, outs);
            step!(st, outs, 4, "plain", v(-a));
            step!(st, outs, 5, "ref&", v(F::ref_un(a, 0)));
            step!(st, outs, 6, "Wrapping", v(F::w_un(Wrapping(a), 0, false).0));
        }
        ABS => {
            step!(st, outs, 0, "checked", o(a.checked_abs()));
            step!(st, outs, 1, "saturating", v(a.saturating_abs()));
            step!(st, outs, 2, "wrapping", v(a.wrapping_abs()));
            step!(st, outs, 3, "overflowing", fl(a.overflowing_abs()));
            step!(st, outs, 4, "plain", v(a.abs()));
            step!(st, outs, 5, "Wrapping", v(Wrapping(a).abs().0));
        }
        _ => run_common::<F>(st, op, ar, br, outs),
    }
}

pub fn run_unsigned<F: VF + FixedUnsigned>(st: usize, op: u16, ar: u128, br: u128, outs: &mut Outs)
where
    F::Bits: Copy,
{
    match op {
        ABS => {}
        NEG => {
            run_common::<F>(st, op, ar, br, outs);
            step!(st, outs, 4, "Wrapping", v(F::w_un(Wrapping(F::from_raw(ar)), 0, false).0));
        }
        _ => run_common::<F>(st, op, ar, br, outs),
    }
}

// ---------------------------------------------------------------------------
// Wrapping<F> programs (C18): an initial value and a short sequence of operations;
// the value after every step is reported ("s<i>"), together with the corresponding
// wrapping operation applied to F directly ("d<i>", differential).

use std::str::FromStr;

pub const W_NEG: u16 = 0;
pub const W_NOT: u16 = 1;
pub const W_ABS: u16 = 2;
pub const W_SIGNUM: u16 = 3;
pub const W_CEIL: u16 = 4;
pub const W_FLOOR: u16 = 5;
pub const W_ROUND: u16 = 6;
pub const W_RTE: u16 = 7;
pub const W_RTZ: u16 = 8;
pub const W_INT: u16 = 9;
pub const W_FRAC: u16 = 10;
pub const W_NPOT: u16 = 11;
pub const W_ROTL: u16 = 12;
pub const W_ROTR: u16 = 13;
pub const W_BIN: u16 = 14;
pub const W_DIV_EUCLID: u16 = 15;
pub const W_REM_EUCLID: u16 = 16;
pub const W_INT_OP: u16 = 17;
pub const W_DIV_EUCLID_INT: u16 = 18;
pub const W_REM_EUCLID_INT: u16 = 19;
pub const W_SHIFT: u16 = 20;
pub const W_SUM: u16 = 21;
pub const W_PRODUCT: u16 = 22;
pub const W_FROM_INT: u16 = 23;
pub const W_FROM_F64: u16 = 24;
pub const W_FROM_F32: u16 = 25;
pub const W_FROM_FIXED: u16 = 26;
pub const W_FROM_STR: u16 = 27;
pub const W_NOPS: u16 = 28;
pub const W_NAMES: [&str; W_NOPS as usize] = [
    "neg", "not", "abs", "signum", "ceil", "floor", "round", "round_ties_to_even", "round_to_zero", "int", "frac",
    "next_power_of_two", "rotate_left", "rotate_right", "binop", "div_euclid", "rem_euclid", "int_op", "div_euclid_int",
    "rem_euclid_int", "shift", "sum", "product", "from_int", "from_f64", "from_f32", "from_fixed", "from_str",
];
pub const PROGRAM: u16 = 30;
pub const MAX_STEPS: usize = 8;
pub const S_LABELS: [&str; MAX_STEPS] = ["s0", "s1", "s2", "s3", "s4", "s5", "s6", "s7"];
pub const D_LABELS: [&str; MAX_STEPS] = ["d0", "d1", "d2", "d3", "d4", "d5", "d6", "d7"];

fn from_fixed_sel<F: VF>(x: u128, sel: u128) -> Wrapping<F> {
    use substrate_fixed::types::*;
    match sel % 4 {
        0 => Wrapping::<F>::from_num(I16F16::from_bits(x as i32)),
        1 => Wrapping::<F>::from_num(U8F8::from_bits(x as u16)),
        2 => Wrapping::<F>::from_num(I64F64::from_bits(x as i128)),
        _ => Wrapping::<F>::from_num(U0F128::from_bits(x)),
    }
}

/// the operations available for every signedness; `None` = not handled here
#[allow(clippy::type_complexity)]
fn w_step<F: VF>(cur: Wrapping<F>, hist: &[Wrapping<F>], wop: u16, x: u128, y: u128, s: &str) -> Result<Option<Wrapping<F>>, String>
where
    F::Bits: Copy,
{
    let b = Wrapping(F::from_raw(x));
    let n = F::bits_from_raw(x);
    Ok(Some(match wop {
        W_NEG => F::w_un(cur, 0, y & 1 == 1),
        W_NOT => F::w_un(cur, 1, y & 1 == 1),
        W_CEIL => cur.ceil(),
        W_FLOOR => cur.floor(),
        W_ROUND => cur.round(),
        W_RTE => cur.round_ties_to_even(),
        W_RTZ => cur.round_to_zero(),
        W_INT => cur.int(),
        W_FRAC => cur.frac(),
        W_ROTL => cur.rotate_left(x as u32),
        W_ROTR => cur.rotate_right(x as u32),
        W_BIN => F::w_bin(cur, b, (y & 7) as u8, ((y >> 8) % 6) as u8),
        W_DIV_EUCLID => cur.div_euclid(b),
        W_REM_EUCLID => cur.rem_euclid(b),
        W_INT_OP => F::w_int(cur, n, 2 + (y % 3) as u8, ((y >> 8) % 6) as u8),
        W_DIV_EUCLID_INT => cur.div_euclid_int(n),
        W_REM_EUCLID_INT => cur.rem_euclid_int(n),
        W_SHIFT => F::w_shift(cur, (y & 0xff) as usize % 12, x, (y >> 8) & 1 == 1, ((y >> 16) % 6) as u8),
        W_SUM => {
            // y bit 1: over an empty iterator
            let items: &[Wrapping<F>] = if y & 2 != 0 { &[] } else { hist };
            if y & 1 == 1 {
                items.iter().sum()
            } else {
                items.iter().cloned().sum()
            }
        }
        W_PRODUCT => {
            let items: &[Wrapping<F>] = if y & 2 != 0 { &[] } else { hist };
            if y & 1 == 1 {
                items.iter().product()
            } else {
                items.iter().cloned().product()
            }
        }
        W_FROM_INT => lay::with_int!((y % 12) as usize, T => Wrapping::<F>::from_num(<T as lay::IntRaw>::from_raw(x))),
        W_FROM_F64 => Wrapping::<F>::from_num(f64::from_bits(x as u64)),
        W_FROM_F32 => Wrapping::<F>::from_num(f32::from_bits(x as u32)),
        W_FROM_FIXED => from_fixed_sel::<F>(x, y),
        W_FROM_STR => {
            let r = match y {
                2 => Wrapping::<F>::from_str_binary(s),
                8 => Wrapping::<F>::from_str_octal(s),
                16 => Wrapping::<F>::from_str_hex(s),
                _ => Wrapping::<F>::from_str(s),
            };
            match r {
                Ok(v) => v,
                Err(e) => return Err(e.to_string()),
            }
        }
        _ => return Ok(None),
    }))
}

/// the corresponding operation on F itself (differential); `None` = no direct counterpart
#[allow(deprecated)]
fn f_step<F: VF>(cur: F, wop: u16, x: u128, y: u128) -> Option<F>
where
    F::Bits: Copy,
{
    let b = F::from_raw(x);
    let n = F::bits_from_raw(x);
    Some(match wop {
        W_NEG => cur.wrapping_neg(),
        W_CEIL => cur.wrapping_ceil(),
        W_FLOOR => cur.wrapping_floor(),
        W_ROUND => cur.wrapping_round(),
        W_RTE => cur.wrapping_round_ties_to_even(),
        W_RTZ => cur.round_to_zero(),
        W_INT => cur.int(),
        W_FRAC => cur.frac(),
        W_BIN => match y & 7 {
            0 => cur.wrapping_add(b),
            1 => cur.wrapping_sub(b),
            2 => cur.wrapping_mul(b),
            3 => cur.wrapping_div(b),
            4 => cur % b,
            5 => cur & b,
            6 => cur | b,
            _ => cur ^ b,
        },
        W_DIV_EUCLID => cur.wrapping_div_euclid(b),
        W_REM_EUCLID => cur.rem_euclid(b),
        W_INT_OP => match y % 3 {
            0 => cur.wrapping_mul_int(n),
            1 => cur.wrapping_div_int(n),
            _ => cur.wrapping_rem_int(n),
        },
        W_DIV_EUCLID_INT => cur.wrapping_div_euclid_int(n),
        W_REM_EUCLID_INT => cur.wrapping_rem_euclid_int(n),
        _ => return None,
    })
}

fn run_prog_with<F: VF>(st: usize, a: u128, prog: &[(u16, u128, u128)], s: &str, outs: &mut Outs, special: fn(Wrapping<F>, u16) -> Option<Wrapping<F>>)
where
    F::Bits: Copy,
{
    if st > 0 {
        // a step unwound: the program ends there
        return;
    }
    let mut cur = Wrapping(F::from_raw(a));
    let mut hist: Vec<Wrapping<F>> = vec![cur];
    for (i, (wop, x, y)) in prog.iter().take(MAX_STEPS).enumerate() {
        outs.push((S_LABELS[i], Out::Na));
        let r = match special(cur, *wop) {
            Some(v) => Ok(Some(v)),
            None => w_step::<F>(cur, &hist, *wop, *x, *y, s),
        };
        match r {
            Ok(Some(v)) => {
                outs.last_mut().unwrap().1 = Out::V(v.0.raw());
                // differential on the previous value
                outs.push((D_LABELS[i], Out::Na));
                let d = f_step::<F>(cur.0, *wop, *x, *y);
                outs.last_mut().unwrap().1 = match d {
                    Some(dv) => Out::V(dv.raw()),
                    None => Out::Na,
                };
                cur = v;
                hist.push(cur);
            }
            Ok(None) => {
                // operation not available for this signedness: value unchanged
                outs.last_mut().unwrap().1 = Out::V(cur.0.raw());
            }
            Err(msg) => {
                outs.last_mut().unwrap().1 = Out::E(msg);
            }
        }
    }
}

pub fn run_prog_signed<F: VF + FixedSigned>(st: usize, a: u128, prog: &[(u16, u128, u128)], s: &str, outs: &mut Outs)
where
    F::Bits: Copy,
{
    run_prog_with::<F>(st, a, prog, s, outs, |cur, wop| match wop {
        W_ABS => Some(cur.abs()),
        W_SIGNUM => Some(cur.signum()),
        _ => None,
    })
}

pub fn run_prog_unsigned<F: VF + FixedUnsigned>(st: usize, a: u128, prog: &[(u16, u128, u128)], s: &str, outs: &mut Outs)
where
    F::Bits: Copy,
{
    run_prog_with::<F>(st, a, prog, s, outs, |cur, wop| match wop {
        W_NPOT => Some(cur.next_power_of_two()),
        _ => None,
    })
}

// ---------------------------------------------------------------------------
// Miscellaneous public operations that only the profile pair (C11) exercises:
// shifts of F by the 12 integer types, signum, next_power_of_two, Sum / Product,
// bit operations and counting functions. `sel` picks the operation.

pub const MISC: u16 = 31;
pub const MISC_NAMES: [&str; 6] = ["shift", "signum", "next_power_of_two", "sum", "product", "bits"];

fn run_misc_common<F: VF>(st: usize, sel: u128, ar: u128, br: u128, outs: &mut Outs)
where
    F::Bits: Copy,
{
    let a = F::from_raw(ar);
    let b = F::from_raw(br);
    match sel & 0xff {
        0 => {
            let kind = ((sel >> 8) & 0xff) as usize % 12;
            let right = (sel >> 16) & 1 == 1;
            let form = ((sel >> 20) % 6) as u8;
            // the amount as the primitive conversion `as u32` sees it (low 32 bits of the two's complement)
            let n32 = lay::with_int!(kind, T => <T as lay::IntRaw>::from_raw(br) as u32);
            step!(st, outs, 0, "plain", v(F::f_shift(a, kind, br, right, form)));
            if right {
                step!(st, outs, 1, "checked", o(a.checked_shr(n32)));
                step!(st, outs, 2, "wrapping", v(a.wrapping_shr(n32)));
                step!(st, outs, 3, "overflowing", fl(a.overflowing_shr(n32)));
            } else {
                step!(st, outs, 1, "checked", o(a.checked_shl(n32)));
                step!(st, outs, 2, "wrapping", v(a.wrapping_shl(n32)));
                step!(st, outs, 3, "overflowing", fl(a.overflowing_shl(n32)));
            }
        }
        3 | 4 => {
            let c3 = F::from_raw(ar ^ br.rotate_left(17));
            let items = [a, b, c3];
            let n = 1 + ((sel >> 8) % 3) as usize;
            let items = &items[..n.min(3)];
            let items: &[F] = if (sel >> 12) & 3 == 0 { &[] } else { items };
            if sel & 0xff == 3 {
                step!(st, outs, 0, "plain", v(F::f_sum(items, false)));
                step!(st, outs, 1, "ref", v(F::f_sum(items, true)));
                step!(st, outs, 2, "overflowing", {
                    let mut acc = F::from_raw(0);
                    let mut ovf = false;
                    for it in items {
                        let (r, o2) = acc.overflowing_add(*it);
                        acc = r;
                        ovf |= o2;
                    }
                    Out::F(acc.raw(), ovf)
                });
            } else {
                step!(st, outs, 0, "plain", v(F::f_product(items, false)));
                step!(st, outs, 1, "ref", v(F::f_product(items, true)));
                step!(st, outs, 2, "overflowing", {
                    let mut it = items.iter();
                    match it.next() {
                        None => {
                            let (one, o1) = F::overflowing_from_num(1);
                            Out::F(one.raw(), o1)
                        }
                        Some(first) => {
                            let mut acc = *first;
                            let mut ovf = false;
                            for x in it {
                                let (r, o2) = acc.overflowing_mul(*x);
                                acc = r;
                                ovf |= o2;
                            }
                            Out::F(acc.raw(), ovf)
                        }
                    }
                });
            }
        }
        5 => {
            let n = (br & 0xffff_ffff) as u32;
            step!(st, outs, 0, "and", v(a & b));
            step!(st, outs, 1, "or", v(a | b));
            step!(st, outs, 2, "xor", v(a ^ b));
            step!(st, outs, 3, "not", v(!a));
            step!(st, outs, 4, "count_ones", Out::V(a.count_ones() as u128));
            step!(st, outs, 5, "count_zeros", Out::V(a.count_zeros() as u128));
            step!(st, outs, 6, "leading_zeros", Out::V(a.leading_zeros() as u128));
            step!(st, outs, 7, "trailing_zeros", Out::V(a.trailing_zeros() as u128));
            step!(st, outs, 8, "rotate_left", v(a.rotate_left(n)));
            step!(st, outs, 9, "rotate_right", v(a.rotate_right(n)));
            step!(st, outs, 10, "and_ref", v(F::ref_op(a, b, 5, 0)));
            step!(st, outs, 11, "or_assign", v(F::ref_op(a, b, 6, 3)));
            step!(st, outs, 12, "xor_assign_ref", v(F::ref_op(a, b, 7, 4)));
            step!(st, outs, 13, "not_ref", v(F::ref_un(a, 1)));
            step!(st, outs, 14, "min_value", v(F::min_value()));
            step!(st, outs, 15, "max_value", v(F::max_value()));
            step!(st, outs, 16, "nbits", Out::V((F::int_nbits() as u128) << 32 | F::frac_nbits() as u128));
        }
        _ => {}
    }
}

pub fn run_misc_signed<F: VF + FixedSigned>(st: usize, sel: u128, ar: u128, br: u128, outs: &mut Outs)
where
    F::Bits: Copy,
{
    let a = F::from_raw(ar);
    match sel & 0xff {
        1 => {
            step!(st, outs, 0, "plain", v(a.signum()));
            step!(st, outs, 1, "overflowing", {
                let (r, o2) = if a.is_positive() { F::overflowing_from_num(1) } else if a.is_negative() { F::overflowing_from_num(-1) } else { (F::from_raw(0), false) };
                Out::F(r.raw(), o2)
            });
            step!(st, outs, 2, "is_positive", Out::B(a.is_positive()));
            step!(st, outs, 3, "is_negative", Out::B(a.is_negative()));
        }
        _ => run_misc_common::<F>(st, sel, ar, br, outs),
    }
}

pub fn run_misc_unsigned<F: VF + FixedUnsigned>(st: usize, sel: u128, ar: u128, br: u128, outs: &mut Outs)
where
    F::Bits: Copy,
{
    let a = F::from_raw(ar);
    match sel & 0xff {
        2 => {
            step!(st, outs, 0, "plain", v(a.next_power_of_two()));
            step!(st, outs, 1, "checked", o(a.checked_next_power_of_two()));
            step!(st, outs, 2, "overflowing", {
                let c = a.checked_next_power_of_two();
                Out::F(c.map(|x| x.raw()).unwrap_or(0), c.is_none())
            });
            step!(st, outs, 3, "is_power_of_two", Out::B(a.is_power_of_two()));
        }
        _ => run_misc_common::<F>(st, sel, ar, br, outs),
    }
}
