// Calls into the library under test: every form of every arithmetic / rounding
// operation, sequenced with `step!` and run by `vcore::out::drive` (an unwind of
// each call is captured separately, without a closure per call).

#[allow(unused_imports)]
use lay::VF;
#[allow(unused_imports)]
use substrate_fixed::traits::{FixedSigned, FixedUnsigned};
use vcore::out::Outs;
use vcore::{step, Out};

pub const ADD: u16 = 0;
pub const SUB: u16 = 1;
pub const MUL: u16 = 2;
pub const DIV: u16 = 3;
pub const REM: u16 = 4;
pub const DIV_EUCLID: u16 = 5;
pub const REM_EUCLID: u16 = 6;
pub const MUL_INT: u16 = 7;
pub const DIV_INT: u16 = 8;
pub const REM_INT: u16 = 9;
pub const DIV_EUCLID_INT: u16 = 10;
pub const REM_EUCLID_INT: u16 = 11;
pub const NEG: u16 = 12;
pub const ABS: u16 = 13;
pub const CEIL: u16 = 14;
pub const FLOOR: u16 = 15;
pub const ROUND: u16 = 16;
pub const ROUND_TE: u16 = 17;
pub const ROUND_TO_ZERO: u16 = 18;
pub const INT: u16 = 19;
pub const NOPS: u16 = 20;

pub const OP_NAMES: [&str; NOPS as usize] = [
    "add", "sub", "mul", "div", "rem", "div_euclid", "rem_euclid", "mul_int", "div_int", "rem_int", "div_euclid_int",
    "rem_euclid_int", "neg", "abs", "ceil", "floor", "round", "round_ties_to_even", "round_to_zero", "int_frac",
];

pub fn is_int_rhs(op: u16) -> bool {
    (MUL_INT..=REM_EUCLID_INT).contains(&op)
}
pub fn is_unary(op: u16) -> bool {
    op >= NEG
}


#[inline]
fn v<F: VF>(x: F) -> Out {
    Out::V(x.raw())
}
#[inline]
fn o<F: VF>(x: Option<F>) -> Out {
    Out::O(x.map(|y| y.raw()))
}
#[inline]
fn fl<F: VF>(x: (F, bool)) -> Out {
    Out::F(x.0.raw(), x.1)
}

#[inline(always)]
fn ref_forms<F: VF>(st: usize, base: usize, outs: &mut Outs, a: F, b: F, op: u8) {
    step!(st, outs, base, "ref&&", v(F::ref_op(a, b, op, 0)));
    step!(st, outs, base + 1, "ref&v", v(F::ref_op(a, b, op, 1)));
    step!(st, outs, base + 2, "refv&", v(F::ref_op(a, b, op, 2)));
    step!(st, outs, base + 3, "assign", v(F::ref_op(a, b, op, 3)));
    step!(st, outs, base + 4, "assign&", v(F::ref_op(a, b, op, 4)));
}
#[inline(always)]
fn ref_forms_int<F: VF>(st: usize, base: usize, outs: &mut Outs, a: F, n: F::Bits, op: u8)
where
    F::Bits: Copy,
{
    step!(st, outs, base, "ref&&", v(F::ref_op_int(a, n, op, 0)));
    step!(st, outs, base + 1, "ref&v", v(F::ref_op_int(a, n, op, 1)));
    step!(st, outs, base + 2, "refv&", v(F::ref_op_int(a, n, op, 2)));
    step!(st, outs, base + 3, "assign", v(F::ref_op_int(a, n, op, 3)));
    step!(st, outs, base + 4, "assign&", v(F::ref_op_int(a, n, op, 4)));
}
#[allow(deprecated)]
pub fn run_common<F: VF>(st: usize, op: u16, ar: u128, br: u128, outs: &mut Outs)
where
    F::Bits: Copy,
{
    let a = F::from_raw(ar);
    let b = F::from_raw(br);
    let n = F::bits_from_raw(br);
    match op {
        ADD => {
            step!(st, outs, 0, "checked", o(a.checked_add(b)));
            step!(st, outs, 1, "saturating", v(a.saturating_add(b)));
            step!(st, outs, 2, "wrapping", v(a.wrapping_add(b)));
            step!(st, outs, 3, "overflowing", fl(a.overflowing_add(b)));
            step!(st, outs, 4, "plain", v(a + b));
            ref_forms(st, 5, outs, a, b, 0);
        }
        SUB => {
            step!(st, outs, 0, "checked", o(a.checked_sub(b)));
            step!(st, outs, 1, "saturating", v(a.saturating_sub(b)));
            step!(st, outs, 2, "wrapping", v(a.wrapping_sub(b)));
            step!(st, outs, 3, "overflowing", fl(a.overflowing_sub(b)));
            step!(st, outs, 4, "plain", v(a - b));
            ref_forms(st, 5, outs, a, b, 1);
        }
        MUL => {
            step!(st, outs, 0, "checked", o(a.checked_mul(b)));
            step!(st, outs, 1, "saturating", v(a.saturating_mul(b)));
            step!(st, outs, 2, "wrapping", v(a.wrapping_mul(b)));
            step!(st, outs, 3, "overflowing", fl(a.overflowing_mul(b)));
            step!(st, outs, 4, "plain", v(a * b));
            ref_forms(st, 5, outs, a, b, 2);
        }
        DIV => {
            step!(st, outs, 0, "checked", o(a.checked_div(b)));
            step!(st, outs, 1, "saturating", v(a.saturating_div(b)));
            step!(st, outs, 2, "wrapping", v(a.wrapping_div(b)));
            step!(st, outs, 3, "overflowing", fl(a.overflowing_div(b)));
            step!(st, outs, 4, "plain", v(a / b));
            ref_forms(st, 5, outs, a, b, 3);
        }
        REM => {
            step!(st, outs, 0, "checked", o(a.checked_rem(b)));
            step!(st, outs, 1, "plain", v(a % b));
            ref_forms(st, 2, outs, a, b, 4);
        }
        DIV_EUCLID => {
            step!(st, outs, 0, "checked", o(a.checked_div_euclid(b)));
            step!(st, outs, 1, "saturating", v(a.saturating_div_euclid(b)));
            step!(st, outs, 2, "wrapping", v(a.wrapping_div_euclid(b)));
            step!(st, outs, 3, "overflowing", fl(a.overflowing_div_euclid(b)));
            step!(st, outs, 4, "plain", v(a.div_euclid(b)));
        }
        REM_EUCLID => {
            step!(st, outs, 0, "checked", o(a.checked_rem_euclid(b)));
            step!(st, outs, 1, "plain", v(a.rem_euclid(b)));
        }
        MUL_INT => {
            step!(st, outs, 0, "checked", o(a.checked_mul_int(n)));
            step!(st, outs, 1, "saturating", v(a.saturating_mul_int(n)));
            step!(st, outs, 2, "wrapping", v(a.wrapping_mul_int(n)));
            step!(st, outs, 3, "overflowing", fl(a.overflowing_mul_int(n)));
            step!(st, outs, 4, "plain", v(a * n));
            ref_forms_int(st, 5, outs, a, n, 2);
        }
        DIV_INT => {
            step!(st, outs, 0, "checked", o(a.checked_div_int(n)));
            step!(st, outs, 1, "wrapping", v(a.wrapping_div_int(n)));
            step!(st, outs, 2, "overflowing", fl(a.overflowing_div_int(n)));
            step!(st, outs, 3, "plain", v(a / n));
            ref_forms_int(st, 4, outs, a, n, 3);
        }
        REM_INT => {
            step!(st, outs, 0, "checked", o(a.checked_rem_int(n)));
            step!(st, outs, 1, "wrapping", v(a.wrapping_rem_int(n)));
            step!(st, outs, 2, "overflowing", fl(a.overflowing_rem_int(n)));
            step!(st, outs, 3, "plain", v(a % n));
            ref_forms_int(st, 4, outs, a, n, 4);
        }
        DIV_EUCLID_INT => {
            step!(st, outs, 0, "checked", o(a.checked_div_euclid_int(n)));
            step!(st, outs, 1, "wrapping", v(a.wrapping_div_euclid_int(n)));
            step!(st, outs, 2, "overflowing", fl(a.overflowing_div_euclid_int(n)));
            step!(st, outs, 3, "plain", v(a.div_euclid_int(n)));
        }
        REM_EUCLID_INT => {
            step!(st, outs, 0, "checked", o(a.checked_rem_euclid_int(n)));
            step!(st, outs, 1, "wrapping", v(a.wrapping_rem_euclid_int(n)));
            step!(st, outs, 2, "overflowing", fl(a.overflowing_rem_euclid_int(n)));
            step!(st, outs, 3, "plain", v(a.rem_euclid_int(n)));
        }
        NEG => {
            step!(st, outs, 0, "checked", o(a.checked_neg()));
            step!(st, outs, 1, "saturating", v(a.saturating_neg()));
            step!(st, outs, 2, "wrapping", v(a.wrapping_neg()));
            step!(st, outs, 3, "overflowing", fl(a.overflowing_neg()));
        }
        CEIL => {
            step!(st, outs, 0, "checked", o(a.checked_ceil()));
            step!(st, outs, 1, "saturating", v(a.saturating_ceil()));
            step!(st, outs, 2, "wrapping", v(a.wrapping_ceil()));
            step!(st, outs, 3, "overflowing", fl(a.overflowing_ceil()));
            step!(st, outs, 4, "plain", v(a.ceil()));
        }
        FLOOR => {
            step!(st, outs, 0, "checked", o(a.checked_floor()));
            step!(st, outs, 1, "saturating", v(a.saturating_floor()));
            step!(st, outs, 2, "wrapping", v(a.wrapping_floor()));
            step!(st, outs, 3, "overflowing", fl(a.overflowing_floor()));
            step!(st, outs, 4, "plain", v(a.floor()));
        }
        ROUND => {
            step!(st, outs, 0, "checked", o(a.checked_round()));
            step!(st, outs, 1, "saturating", v(a.saturating_round()));
            step!(st, outs, 2, "wrapping", v(a.wrapping_round()));
            step!(st, outs, 3, "overflowing", fl(a.overflowing_round()));
            step!(st, outs, 4, "plain", v(a.round()));
        }
        ROUND_TE => {
            step!(st, outs, 0, "checked", o(a.checked_round_ties_to_even()));
            step!(st, outs, 1, "saturating", v(a.saturating_round_ties_to_even()));
            step!(st, outs, 2, "wrapping", v(a.wrapping_round_ties_to_even()));
            step!(st, outs, 3, "overflowing", fl(a.overflowing_round_ties_to_even()));
            step!(st, outs, 4, "plain", v(a.round_ties_to_even()));
        }
        ROUND_TO_ZERO => {
            step!(st, outs, 0, "plain", v(a.round_to_zero()));
        }
        INT => {
            step!(st, outs, 0, "int", v(a.int()));
            step!(st, outs, 1, "frac", v(a.frac()));
        }
        _ => {}
    }
}


pub fn run_signed<F: VF + FixedSigned>(st: usize, op: u16, ar: u128, br: u128, outs: &mut Outs)
where
    F::Bits: Copy,
{
    let a = F::from_raw(ar);
    match op {
        NEG => {
            run_common::<F>(st, op, ar, br, outs);
            step!(st, outs, 4, "plain", v(-a));
            step!(st, outs, 5, "ref&", v(F::ref_un(a, 0)));
        }
        ABS => {
            step!(st, outs, 0, "checked", o(a.checked_abs()));
            step!(st, outs, 1, "saturating", v(a.saturating_abs()));
            step!(st, outs, 2, "wrapping", v(a.wrapping_abs()));
            step!(st, outs, 3, "overflowing", fl(a.overflowing_abs()));
            step!(st, outs, 4, "plain", v(a.abs()));
        }
        _ => run_common::<F>(st, op, ar, br, outs),
    }
}

pub fn run_unsigned<F: VF + FixedUnsigned>(st: usize, op: u16, ar: u128, br: u128, outs: &mut Outs)
where
    F::Bits: Copy,
{
    match op {
        ABS => {}
        _ => run_common::<F>(st, op, ar, br, outs),
    }
}
