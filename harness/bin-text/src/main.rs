fn main() {
    bin_text::main_entry()
}
