//! Known-finding predicates of the text engine (none active unless named by an
//! `open` entry of /verif/known_findings.json).

use vcore::run::Kf;
use vcore::{Case, Out};

#[allow(unused_variables)]
pub fn matches(kf: &Kf, prop: &str, c: &Case, label: &str, got: &Out, chk: bool) -> Option<&'static str> {
    None
}
