//! Engine `text`: C08 (parsing), C09 (formatting), C10 (SCALE / byte views / serde).
//! Oracles: a tokeniser written from the stated grammar + exact rational
//! rounding in `Big`; exact digit expansion; the reference padding model of
//! `vcore::fmtspec`; plain little-endian bytes of the raw value.

mod kf;

use proptest::collection::vec;
use proptest::prelude::*;
use text_sa::{BYTES, FMT, OP_NAMES, PARSE, TRAIT_NAMES};
use vcore::fmtspec::{ref_pad, Spec, NCOMBO};
use vcore::gen::{ing, layout_or, pattern, pick, Ing};
use vcore::out::{drive, Outs};
use vcore::run::{Budget, Engine, Kf, Tier};
use vcore::{Big, Case, Eval, Exp, Fail, Out, L, NLAY};

pub struct Text;

fn exec(c: &Case) -> Outs {
    let (lay, op, sel, a, b) = (c.lay, c.op, c.lay2, c.a, c.b);
    let s = c.s.as_str();
    drive(&mut |st, outs| match lay {
        0..=123 => text_sa::run(st, lay, op, sel, a, b, s, outs),
        124..=252 => text_sb::run(st, lay, op, sel, a, b, s, outs),
        253..=376 => text_ua::run(st, lay, op, sel, a, b, s, outs),
        _ => text_ub::run(st, lay, op, sel, a, b, s, outs),
    })
}

// ---------------- parse oracle ----------------

pub use vcore::lit::{limb_carry_fraction, LIMB_GROUPS, round_literal, tokenise, Parsed};

/// The wording of the errors is not part of the property (the error's kind is private), only that an out-of-range
/// literal fails with "an overflow error" and a malformed one with an error. What is asserted for an out-of-range
/// literal in the plain form: an `Err` whose text is NOT one of the texts the library gives for malformed literals
/// (learned from a fixed set of malformed probes). If the library words some overflow like a malformed literal
/// (probes "256" / "-129" / "-1" give a text from that set), any `Err` is accepted.
fn malformed_messages() -> &'static (Vec<String>, bool) {
    static M: std::sync::OnceLock<(Vec<String>, bool)> = std::sync::OnceLock::new();
    M.get_or_init(|| {
        let get = |l: L, s: &str| -> Option<String> {
            let c = Case { op: PARSE, lay: l.idx() as u16, lay2: 10, s: s.to_string(), ..Case::default() };
            match exec(&c).into_iter().find(|(l, _)| *l == "plain") {
                Some((_, Out::E(m))) => Some(m),
                _ => None,
            }
        };
        let (u8f0, i8f0, i16f16) = (L::new(false, 8, 0), L::new(true, 8, 0), L::new(true, 32, 16));
        let mut bad = Vec::new();
        for probe in ["", "-", "+", ".", "-.", "x", "1x", "1.2.3", "..", "+-1", "1-", "1 ", " 1", "1_0", "--1", "1.2.", "1e3", "0x10"] {
            for l in [u8f0, i16f16] {
                if let Some(m) = get(l, probe) {
                    if !bad.contains(&m) {
                        bad.push(m);
                    }
                }
            }
        }
        let overflow_probes = [get(u8f0, "256"), get(i8f0, "-129"), get(u8f0, "-1"), get(i16f16, "99999999")];
        let distinguishable = overflow_probes.iter().all(|m| matches!(m, Some(t) if !bad.contains(t)));
        (bad, distinguishable)
    })
}
fn overflow_error_ok(got: &Out) -> bool {
    let (bad, distinguishable) = malformed_messages();
    match got {
        Out::E(m) => !*distinguishable || !bad.contains(m),
        _ => false,
    }
}

// ---------------- literal construction ----------------

fn digit_char(d: u32, radix: u32, upper: bool) -> char {
    let c = std::char::from_digit(d % radix, radix).unwrap();
    if upper {
        c.to_ascii_uppercase()
    } else {
        c
    }
}
fn digits_to_string(ds: &[u8], radix: u32, case_sel: u128) -> String {
    ds.iter().enumerate().map(|(i, d)| digit_char(*d as u32, radix, (case_sel >> (i % 100)) & 1 == 1)).collect()
}

/// exact expansion of mag / 2^fbits in `radix`: (integer digits, fraction digits without trailing trimming)
fn expand(mag: &Big, fbits: u32, radix: u32) -> (String, String) {
    let ip = mag.shr_trunc(fbits);
    let fnum = mag.sub(&ip.shl(fbits));
    let int_s = ip.to_digits(radix);
    if fbits == 0 {
        return (int_s, String::new());
    }
    let frac_s = if radix == 10 {
        let d = fnum.mul(&Big::from_u64(5).pow(fbits)).to_digits(10);
        format!("{:0>width$}", d, width = fbits as usize)
    } else {
        let b = radix.trailing_zeros();
        let nd = (fbits + b - 1) / b;
        let shifted = fnum.shl(nd * b - fbits);
        let d = shifted.to_digits(radix);
        format!("{:0>width$}", d, width = nd as usize)
    };
    (int_s, frac_s)
}

/// literal around the rounding tie (k + 1/2) ulp of layout l
fn tie_literal(l: L, radix: u32, k_raw: u128, variant: usize, extra: &[u8], sel: u128) -> String {
    let m = l.val(k_raw).shl(1).add_i64(1);
    let neg = m.is_neg();
    let (int_s, mut frac_s) = expand(&m.abs(), l.f + 1, radix);
    let tail: String = digits_to_string(extra, radix, sel >> 20);
    let bump_last = |s: &mut String, up: bool| {
        if let Some(c) = s.pop() {
            let d = c.to_digit(radix).unwrap();
            let nd = if up { (d + 1).min(radix - 1) } else { d.saturating_sub(1) };
            s.push(std::char::from_digit(nd, radix).unwrap());
        }
    };
    let mut lead = String::new();
    // cut positions: anywhere, or at / next to the digit budgets of fast paths (3, 6, 13, 27, 54 digits)
    let cut_at = |len: usize| -> usize {
        const BUDGETS: [usize; 16] = [2, 3, 4, 5, 6, 7, 12, 13, 14, 26, 27, 28, 53, 54, 55, 56];
        if (sel >> 30) & 1 == 1 {
            BUDGETS[(sel as usize >> 8) % 16].min(len)
        } else {
            (sel as usize >> 8) % (len + 1)
        }
    };
    match variant % 10 {
        0 => {}
        1 => {
            let cut = cut_at(frac_s.len());
            frac_s.truncate(cut);
        }
        8 | 9 => {
            // a prefix of the tie with its last kept digit moved: just above / below the tie with few digits
            let cut = cut_at(frac_s.len()).max(1);
            frac_s.truncate(cut);
            bump_last(&mut frac_s, variant % 10 == 8);
        }
        2 => bump_last(&mut frac_s, true),
        3 => bump_last(&mut frac_s, false),
        4 => {
            frac_s.push_str(&"0".repeat(extra.len()));
            frac_s.push('1');
        }
        5 => {
            bump_last(&mut frac_s, false);
            let top = std::char::from_digit(radix - 1, radix).unwrap();
            frac_s.push_str(&top.to_string().repeat(extra.len() + 1));
        }
        6 => frac_s.push_str(&tail),
        _ => {
            lead = "0".repeat(extra.len() % 5);
            frac_s.push_str(&"0".repeat(extra.len()));
        }
    }
    let sign = if neg {
        "-"
    } else if (sel >> 3) & 7 == 0 {
        "+"
    } else {
        ""
    };
    let int_part = if int_s == "0" && (sel >> 6) & 3 == 0 { String::new() } else { int_s };
    if frac_s.is_empty() && (sel >> 12) & 1 == 0 {
        if int_part.is_empty() {
            format!("{}{}0", sign, lead)
        } else {
            format!("{}{}{}", sign, lead, int_part)
        }
    } else if int_part.is_empty() && frac_s.is_empty() {
        format!("{}0.", sign)
    } else {
        format!("{}{}{}.{}", sign, lead, int_part, frac_s)
    }
}

const EDIT_CHARS: [&str; 22] = ["+", "-", ".", "_", "e", "x", "G", "g", "/", ":", " ", "\0", "é", "٣", "E", "0", "9", "f", "F", "8", "2", ","];

fn edit(s: &str, pos: usize, kind: u8, ch: usize) -> String {
    let chars: Vec<char> = s.chars().collect();
    let p = if chars.is_empty() { 0 } else { pos % (chars.len() + 1) };
    let ins = EDIT_CHARS[ch % EDIT_CHARS.len()];
    let mut out = String::new();
    match kind % 3 {
        0 => {
            // insert
            out.extend(chars[..p].iter());
            out.push_str(ins);
            out.extend(chars[p..].iter());
        }
        1 => {
            // replace
            let p = p.min(chars.len().saturating_sub(1));
            out.extend(chars[..p].iter());
            out.push_str(ins);
            if p < chars.len() {
                out.extend(chars[p + 1..].iter());
            }
        }
        _ => {
            // delete
            let p = p.min(chars.len().saturating_sub(1));
            out.extend(chars[..p].iter());
            if p < chars.len() {
                out.extend(chars[p + 1..].iter());
            }
        }
    }
    out
}

/// Enumerated sub-space of C08: short decimal fractions a hair above / below, on every layout (see exh_desc).
const SHORT_DEC_LEN: u64 = 506 * 2 * (110 * 9 + 10 * 2);
fn short_decimal_case(i: u64) -> Case {
    let per_lay = 2 * (110 * 9 + 10 * 2);
    let lay = (i / per_lay) as u16;
    let l = L::from_idx(lay as usize);
    let r = i % per_lay;
    let big_int = r % 2 == 1;
    let r = r / 2;
    let (frac, variant): (String, u64) = if r < 110 * 9 {
        let d = r / 9;
        (if d < 10 { format!("{}", d) } else { format!("{:02}", d - 10) }, r % 9)
    } else {
        let q = r - 110 * 9;
        (format!("{}", q / 2), 9 + q % 2)
    };
    const ZS: [usize; 4] = [20, 30, 56, 130];
    let mut fs = frac.clone();
    match variant {
        0 => {}
        1..=4 => {
            fs.push_str(&"0".repeat(ZS[variant as usize - 1]));
            fs.push('1');
        }
        5..=8 | 10 => {
            // hair below: the fraction's last non-zero digit one lower, then nines (skipped for an all-zero fraction)
            let z = if variant == 10 { 1100 } else { ZS[variant as usize - 5] };
            let t = fs.trim_end_matches('0').to_string();
            if let Some(c) = t.chars().last() {
                let mut t2 = t.clone();
                t2.pop();
                t2.push(std::char::from_digit(c.to_digit(10).unwrap() - 1, 10).unwrap());
                fs = t2;
                fs.push_str(&"9".repeat(z));
            } else {
                fs.push_str(&"0".repeat(z));
            }
        }
        _ => {
            fs.push_str(&"0".repeat(1100));
            fs.push('1');
        }
    }
    let ip = if big_int { l.val(l.raw_max()).shr_floor(l.f).to_digits(10) } else { "0".to_string() };
    let neg = l.signed && (i / 7) % 2 == 1;
    Case { op: PARSE, lay, lay2: 10, s: format!("{}{}.{}", if neg { "-" } else { "" }, ip, fs), ..Case::default() }
}

const FIXED_MALFORMED: [&str; 16] = ["", "+", "-", ".", "+.", "-.", "1.2.3", "..", "1-", "1+2", "--1", "+-1", "0x10", "1e5", " 1", "1 "];

const RADICES: [u32; 4] = [10, 2, 8, 16];

// ---------------- format oracle ----------------

/// |a| * radix^p / 2^f rounded to nearest even, as (integer digits, p fraction digits)
fn rounded_digits(mag: &Big, f: u32, radix: u32, p: u32) -> (String, String) {
    let scaled = mag.mul(&Big::from_u64(radix as u64).pow(p));
    let q = scaled.shr_trunc(f);
    let rem = scaled.sub(&q.shl(f));
    let d = if f == 0 {
        q
    } else {
        let half = Big::pow2(f - 1);
        if rem > half || (rem == half && q.is_odd()) {
            q.add_i64(1)
        } else {
            q
        }
    };
    let s = d.to_digits(radix);
    let s = format!("{:0>width$}", s, width = p as usize + 1);
    let (i, fr) = s.split_at(s.len() - p as usize);
    (i.to_string(), fr.to_string())
}

fn radix_of_trait(t: u16) -> (u32, &'static str, bool) {
    match t {
        0 | 1 => (10, "", false),
        2 => (2, "0b", false),
        3 => (8, "0o", false),
        4 => (16, "0x", false),
        _ => (16, "0x", true),
    }
}

/// check the no-flag output `t` of value a under (trait, precision); returns error description
fn check_plain_format(l: L, a: u128, tr: u16, prec: Option<usize>, t: &str) -> Result<(), String> {
    let av = l.val(a);
    let neg = av.is_neg();
    let mag = av.abs();
    let (radix, _, upper) = radix_of_trait(tr);
    match prec {
        Some(p) => {
            let (i, fr) = rounded_digits(&mag, l.f, radix, p as u32);
            let body = if p > 0 { format!("{}.{}", i, fr) } else { i };
            let body = if upper { body.to_ascii_uppercase() } else { body };
            let is_zero = body.chars().all(|c| c == '0' || c == '.');
            let want = if neg { format!("-{}", body) } else { body.clone() };
            if t == want || (neg && is_zero && t == body) {
                Ok(())
            } else {
                Err(format!("correctly rounded (ties to even) at {} digits: {:?}", p, want))
            }
        }
        None => {
            // validity predicate: well-formed, sign right, digits shown are the RNE at the
            // number of digits shown, and the string denotes exactly this value's nearest grid point
            let (sign_neg, body) = match t.strip_prefix('-') {
                Some(b) => (true, b),
                None => (false, t),
            };
            if sign_neg != neg && !mag.is_zero() {
                return Err("sign of the value".into());
            }
            let (ip, fp) = match body.split_once('.') {
                Some((i, f)) => (i, f),
                None => (body, ""),
            };
            let ok_digit = |c: char| c.is_digit(radix) && (!c.is_ascii_alphabetic() || c.is_ascii_uppercase() == upper);
            if ip.is_empty() || !ip.chars().all(ok_digit) || !fp.chars().all(ok_digit) || (body.contains('.') && fp.is_empty()) {
                return Err("a well-formed number in the trait's radix and letter case".into());
            }
            if ip.len() > 1 && ip.starts_with('0') {
                return Err("no superfluous leading zeros".into());
            }
            let n = fp.len() as u32;
            let (wi, wf) = rounded_digits(&mag, l.f, radix, n);
            let (wi, wf) = if upper { (wi.to_ascii_uppercase(), wf.to_ascii_uppercase()) } else { (wi, wf) };
            if ip != wi || fp != wf {
                return Err(format!("digits shown = value correctly rounded at {} digits: {}.{}", n, wi, wf));
            }
            // maps back to exactly this value
            let mut all = ip.as_bytes().to_vec();
            all.extend_from_slice(fp.as_bytes());
            let num = Big::from_digits(&all.to_ascii_lowercase(), radix);
            let (back, exact) = round_literal(false, &num, n, radix, l.f);
            if back != mag {
                return Err(format!("output that denotes the same value (it rounds to raw {} not {})", back, mag));
            }
            if radix != 10 && !exact {
                return Err("the exact value in a power-of-two radix".into());
            }
            Ok(())
        }
    }
}

// ---------------- engine ----------------

fn near_short_decimal(l: L, r1: u128, r2: u128) -> u128 {
    // round(d * 2^f) + delta for a random 1..6 digit decimal d, plus a small integer part
    let j = 1 + (r2 % 6) as u32;
    let n = (r1 % 10u128.pow(j)) as u64;
    let ip = ((r2 >> 8) % 40) as u64;
    let num = Big::from_u64(ip).mul(&Big::from_u64(10).pow(j)).add(&Big::from_u64(n));
    let (r, _) = round_literal((r2 >> 20) & 1 == 1 && l.signed, &num, j, 10, l.f);
    let delta = ((r2 >> 24) % 5) as i64 - 2;
    l.wrap(&r.add_i64(delta))
}


/// a value whose shortest decimal form is a limb-boundary fraction (for the print / parse-back round trip)
fn limb_carry_value(l: L, r1: u128, r2: u128) -> u128 {
    let maxd = (l.f as usize * 30103 / 100000).saturating_sub(1);
    let (p, _) = LIMB_GROUPS[(r1 % 6) as usize];
    if maxd <= p as usize {
        return near_short_decimal(l, r1, r2);
    }
    let ns = 1 + (r2 >> 32) as usize % (maxd - p as usize).min(27);
    let suffix: Vec<u8> = (0..ns).map(|i| ((r2 >> (4 * (i % 30))) % 10) as u8).collect();
    let fs = limb_carry_fraction(r1, &suffix, ns);
    let ip = if l.int_bits() > 8 { (r2 >> 100) % 40 } else { 0 };
    let mut all = ip.to_string().into_bytes();
    all.extend_from_slice(fs.as_bytes());
    let num = Big::from_digits(&all, 10);
    let (r, _) = round_literal((r2 >> 20) & 1 == 1 && l.signed, &num, fs.len() as u32, 10, l.f);
    l.wrap(&r)
}

/// A value whose k-digit decimal sits a hair inside the edge of its own rounding interval: the k-digit decimal
/// D = N / 10^k lies within r / (2 * 5^k) ulp above x - ulp/2 (or below x + ulp/2), r small. These are the hard
/// cases of shortest round-trip printing and of the parser's tie detection; uniform values come this close to an
/// interval edge with probability about r / 5^k. Solved: N * 2^(f+1-k) = -+r (mod 5^k).
fn interval_edge_value(l: L, r1: u128, r2: u128) -> u128 {
    match interval_edge_parts(l, r1, r2) {
        Some((_, _, x)) => x,
        None => near_short_decimal(l, r1, r2),
    }
}

/// The same solve as a literal: the k-digit decimal itself ("ip.N"), which lies within r / (2 * 5^k) ulp of a rounding
/// tie of the layout without being one: the hard cases of a decimal parser (any fast path that rounds twice, or
/// decides the tie from a truncated remainder, gets exactly these wrong)
fn interval_edge_literal(l: L, r1: u128, r2: u128) -> Option<String> {
    let (n, k, x) = interval_edge_parts(l, r1, r2)?;
    let xv = l.val(x);
    let ip = xv.abs().shr_floor(l.f);
    Some(format!("{}{}.{:0>width$}", if xv.is_neg() { "-" } else { "" }, ip.to_digits(10), n.to_digits(10), width = k as usize))
}

fn interval_edge_parts(l: L, r1: u128, r2: u128) -> Option<(Big, u32, u128)> {
    let kmax = (l.f as usize * 30103 / 100000).min(54);
    if kmax < 2 || l.f < 8 {
        return None;
    }
    let k = 1 + (r1 % kmax as u128) as u32;
    let k = if (r1 >> 8) & 1 == 1 { kmax as u32 - (r1 >> 9) as u32 % 12u32.min(kmax as u32) } else { k }.max(1);
    let e = l.f + 1 - k.min(l.f);
    let m5 = Big::from_u64(5).pow(k);
    // inverse of 2^e modulo 5^k: ((5^k + 1) / 2)^e
    let half = m5.add_i64(1).shr_floor(1);
    let mut inv = Big::one();
    let mut base = half;
    let mut ee = e;
    while ee > 0 {
        if ee & 1 == 1 {
            inv = inv.mul(&base).rem_trunc(&m5);
        }
        base = base.mul(&base).rem_trunc(&m5);
        ee >>= 1;
    }
    let r = 1 + ((r2 >> 8) % 8) as i64;
    let upper = (r2 >> 16) & 1 == 1; // hair below x + ulp/2 instead of above x - ulp/2
    let target = if upper { m5.add_i64(-r) } else { Big::from_i64(r) };
    // N in [0, 5^k), optionally shifted by multiples of 5^k while it stays a k-digit number (any N = n0 + j 5^k works)
    let n0 = target.mul(&inv).rem_trunc(&m5);
    let j = Big::from_u128((r2 >> 24) % (1u128 << k.min(100)));
    let n = n0.add(&j.mul(&m5));
    let n_digits = n.clone();
    // M = floor(N 2^e / 5^k) = 2x - 1 (lower edge) or 2x (upper edge)
    let mm = n.shl(e).div_floor(&m5);
    let x = if upper { mm.shr_floor(1) } else { mm.add_i64(1).shr_floor(1) };
    let ip = if l.int_bits() > 8 { Big::from_u128((r2 >> 100) % 40).shl(l.f) } else { Big::zero() };
    let x = x.add(&ip);
    let x = if (r2 >> 20) & 1 == 1 && l.signed { x.neg() } else { x };
    Some((n_digits, k, l.wrap(&x)))
}

/// A value chosen through the *running remainder of its decimal expansion*: after m fraction digits the remainder
/// frac(x * 10^m) is a chosen bit pattern (limb patterns: a low limb of all ones under a high limb of 0x33.., 0xe6.., 0xcc..,
/// all ones, ...; a hair above zero; a hair below one). Any digit generator that carries state from digit to digit in
/// machine words (multiply-by-10, by 100, by 10^k per step) has exactly this remainder as its state after m digits,
/// whatever m is — also far beyond the digits a shortest round-trip output needs. Uniform values put the state on a
/// chosen 64-bit pattern with probability 2^-64. Solved: with y the f fraction bits, frac(x 10^m) 2^f = 2^m (y 5^m mod
/// 2^(f-m)), so y = s (5^m)^-1 (mod 2^(f-m)) for a remainder 2^m s, and the top m bits of y are free.
/// Returns (raw value, m, the remainder as an f-bit integer).
fn digit_remainder_value(l: L, r1: u128, r2: u128) -> Option<(u128, u32, u128)> {
    if l.f < 4 {
        return None;
    }
    let f = l.f;
    let d = (f as usize * 30103 / 100000) as u32 + 1;
    // the digit position: around the shortest-output length and beyond it, or anywhere
    let m = match r1 % 4 {
        0 => 1 + (r1 >> 8) as u32 % (f - 1),
        1 => (d + (r1 >> 8) as u32 % 8).min(f - 1),
        _ => (d.saturating_sub(2) + (r1 >> 8) as u32 % (f - d.min(f - 1)).max(1)).clamp(1, f - 1),
    };
    let k = f - m; // bits of s
    const HI: [u64; 8] = [0x3333_3333_3333_3333, 0xe666_6666_6666_6666, 0xcccc_cccc_cccc_cccc, u64::MAX, 0x8000_0000_0000_0000, 0, 0x1999_9999_9999_9999, 0x7fff_ffff_ffff_ffff];
    const LO: [u64; 6] = [u64::MAX, 0, 0xffff_ffff_0000_0000, 0x8000_0000_0000_0000, 1, 0x0000_0000_ffff_ffff];
    let hi = if (r2 >> 3) & 7 == 7 { (r2 >> 64) as u64 } else { HI[(r2 & 7) as usize] };
    let lo = if (r2 >> 9) & 7 == 7 { (r1 >> 64) as u64 } else { LO[((r2 >> 6) % 6) as usize] };
    // the remainder as an f-bit pattern: top-aligned limbs (the generator's word holds the fraction left-aligned or right-aligned;
    // both alignments are produced)
    let pat128 = ((hi as u128) << 64) | lo as u128;
    let rem_f = if (r2 >> 12) & 1 == 0 || f == 128 { pat128 >> (128 - f) } else { pat128 & (u128::MAX >> (128 - f)) };
    let s = rem_f >> m; // drops the low m bits: the remainder must be a multiple of 2^m
    let maskk = if k >= 128 { u128::MAX } else { (1u128 << k) - 1 };
    let five_m = 5u128.wrapping_pow(m);
    // inverse of 5^m modulo 2^128 (Newton: x <- x (2 - a x), doubling the correct bits)
    let mut inv: u128 = 1;
    for _ in 0..8 {
        inv = inv.wrapping_mul(2u128.wrapping_sub(five_m.wrapping_mul(inv)));
    }
    debug_assert_eq!(five_m.wrapping_mul(inv), 1);
    let y_low = s.wrapping_mul(inv) & maskk;
    let t = if m >= 128 { r2 } else { (r2 >> 20) & ((1u128 << m) - 1) };
    let y = if k >= 128 { y_low } else { y_low | (t << k) };
    let y = if f == 128 { y } else { y & ((1u128 << f) - 1) };
    let ip = if l.int_bits() > 0 { ((r1 >> 40) % 50) << f.min(127) } else { 0 };
    let raw = if f == 128 { y } else { (ip | y) & l.mask() };
    Some((raw, m, s << m))
}

fn precision_from(sel: usize, r: u128, l: L) -> Option<usize> {
    match sel % 8 {
        0 | 1 | 2 => None,
        3 | 4 => Some((r % 8) as usize),
        5 => Some(((r >> 8) % 40) as usize),
        6 => Some((l.f as usize + (r % 5) as usize).saturating_sub(2)),
        _ => Some((r % 201) as usize),
    }
}

impl Engine for Text {
    fn name(&self) -> &'static str {
        "text"
    }
    fn props(&self) -> Vec<&'static str> {
        vec!["C08", "C09", "C10"]
    }
    fn op_name(&self, _prop: &str, op: u16) -> String {
        OP_NAMES[op as usize].to_string()
    }
    fn op_from_name(&self, _prop: &str, s: &str) -> Option<u16> {
        OP_NAMES.iter().position(|n| *n == s).map(|i| i as u16)
    }
    fn strategy(&self, prop: &str, stratum: Option<u16>) -> BoxedStrategy<Case> {
        match prop {
            "C08" => {
                let digits = prop_oneof![4 => vec(0u8..16, 0..10), 2 => vec(0u8..16, 0..45), 1 => vec(0u8..16, 0..230)];
                (layout_or(stratum), pick(4), pick(14), ing(), any::<u128>(), digits.clone(), digits, (any::<u16>(), any::<u8>(), pick(22)))
                    .prop_map(|(lay, ri, mode, ia, sel, di, df, (pos, kind, ch))| {
                        let l = L::from_idx(lay as usize);
                        let radix = if mode == 10 || mode == 13 { 10 } else { RADICES[ri] };
                        let s = match mode {
                            // decimal digit groups on a limb boundary of the parser's accumulator
                            10 => {
                                let a = pattern(l, ia);
                                let ip = match (sel >> 60) % 3 {
                                    0 => Big::zero(),
                                    1 => l.val(a).abs().shr_floor(l.f),
                                    _ => Big::from_u64(((sel >> 64) % 9) as u64),
                                };
                                let sign = ["", "", "-", "+"][((sel >> 70) & 3) as usize];
                                format!("{}{}.{}", sign, ip.to_digits(10), limb_carry_fraction(sel, &df, 40))
                            }
                            // a k-digit decimal within a hair of a rounding tie (solved), optionally with a tail of zeros
                            13 => match interval_edge_literal(l, sel, sel.rotate_left(64) ^ (pos as u128) << 40 ^ (kind as u128)) {
                                Some(t) => {
                                    if (sel >> 120) & 3 == 0 {
                                        format!("{}{}", t, "0".repeat(df.len()))
                                    } else {
                                        t
                                    }
                                }
                                None => tie_literal(l, radix, pattern(l, ia), (sel % 10) as usize, &df, sel >> 4),
                            },
                            // long literals: a decisive prefix (a rounding tie, a short number, a representable value)
                            // followed by a long run of one digit and possibly a final digit that decides the rounding;
                            // run lengths log-uniform up to 2^11 digits (rarely 2^13): "any number of digits"
                            11 | 12 => {
                                let a = pattern(l, ia);
                                let (neg, int_s, mut frac_s) = match (sel >> 4) % 4 {
                                    0 | 1 => {
                                        let m = l.val(a).shl(1).add_i64(1);
                                        let (i, f) = expand(&m.abs(), l.f + 1, radix);
                                        (m.is_neg(), i, f)
                                    }
                                    2 => {
                                        // a short number: 0..3 integer digits, 1..4 fraction digits
                                        let ni = if (sel >> 52) & 1 == 0 { 0 } else { di.len().min(3) };
                                        let i = digits_to_string(&di[..ni], radix, sel >> 8);
                                        let f = digits_to_string(&df[..df.len().min(1 + (sel >> 54) as usize % 3)], radix, sel >> 40);
                                        ((sel >> 7) & 1 == 1, if i.is_empty() { "0".into() } else { i }, if f.is_empty() { "1".into() } else { f })
                                    }
                                    _ => {
                                        let av = l.val(a);
                                        let (i, f) = expand(&av.abs(), l.f, radix);
                                        (av.is_neg(), i, f)
                                    }
                                };
                                let k = if (sel >> 12) % 16 == 0 { 11 + (sel >> 16) % 2 } else { (sel >> 16) % 11 } as u32;
                                let z = (1usize << k) + ((sel >> 24) as usize & ((1usize << k) - 1));
                                let top = std::char::from_digit(radix - 1, radix).unwrap();
                                match (sel >> 40) % 5 {
                                    // hair above: zeros, then a non-zero digit
                                    0 | 1 => {
                                        frac_s.push_str(&"0".repeat(z));
                                        frac_s.push(std::char::from_digit(1 + ((sel >> 44) as u32 % (radix - 1)), radix).unwrap());
                                    }
                                    // hair below: last digit one lower, then top digits
                                    2 | 3 if frac_s.chars().last().map(|c| c != '0').unwrap_or(false) => {
                                        let c = frac_s.pop().unwrap();
                                        frac_s.push(std::char::from_digit(c.to_digit(radix).unwrap() - 1, radix).unwrap());
                                        frac_s.push_str(&top.to_string().repeat(z));
                                        if (sel >> 44) & 1 == 1 {
                                            frac_s.push_str(&digits_to_string(&df, radix, sel >> 50));
                                        }
                                    }
                                    // exactly the prefix, with trailing zeros (and leading zeros on the integer part)
                                    _ => frac_s.push_str(&"0".repeat(z)),
                                }
                                let lead = if (sel >> 48) & 3 == 0 { "0".repeat(z / 2) } else { String::new() };
                                format!("{}{}{}.{}", if neg { "-" } else { "" }, lead, int_s, frac_s)
                            }
                            // grammar literal
                            0 | 1 => {
                                let sign = ["", "", "-", "+"][(sel & 3) as usize];
                                let is = digits_to_string(&di, radix, sel >> 8);
                                let fs = digits_to_string(&df, radix, sel >> 40);
                                if (sel >> 2) & 3 == 0 && !is.is_empty() {
                                    format!("{}{}", sign, is)
                                } else {
                                    format!("{}{}.{}", sign, is, fs)
                                }
                            }
                            // scaled to the layout: a representable value written out, plus a random tail
                            2 => {
                                let a = pattern(l, ia);
                                let av = l.val(a);
                                let (i, f) = expand(&av.abs(), l.f, radix);
                                format!("{}{}.{}{}", if av.is_neg() { "-" } else { "" }, i, f, digits_to_string(&df, radix, sel))
                            }
                            // around a rounding tie
                            3..=6 => tie_literal(l, radix, pattern(l, ia), (sel % 10) as usize, &df, sel >> 4),
                            // fraction of all top digits ("x.999..."): rounds up into the integer part
                            7 => {
                                let a = pattern(l, ia);
                                let ip = match (sel >> 1) % 4 {
                                    0 => l.val(l.raw_max()).shr_floor(l.f),               // maximum integer part
                                    1 => l.val(a).abs().shr_floor(l.f),                   // from the operand classes
                                    2 => l.val(a).abs().shr_floor(l.f).shl(1).add_i64(1), // odd
                                    _ => Big::from_u64(((sel >> 40) % 9) as u64),
                                };
                                let n = 1 + (sel >> 8) as usize % 60;
                                let top = std::char::from_digit(radix - 1, radix).unwrap();
                                let mut fs: String = top.to_string().repeat(n);
                                match (sel >> 16) % 4 {
                                    0 => {}
                                    1 => {
                                        // last digit one lower
                                        fs.pop();
                                        fs.push(std::char::from_digit(radix - 2, radix).unwrap());
                                    }
                                    2 => fs.push_str(&digits_to_string(&df, radix, sel >> 40)),
                                    _ => fs.push_str(&top.to_string().repeat(df.len())),
                                }
                                format!("{}{}.{}", if (sel >> 3) & 3 == 0 && l.signed { "-" } else { "" }, ip.to_digits(radix), fs)
                            }
                            // malformed: one edit away from a valid literal
                            8 => {
                                let base = if sel & 1 == 0 {
                                    tie_literal(l, radix, pattern(l, ia), 0, &[], sel >> 4)
                                } else {
                                    format!("{}.{}", digits_to_string(&di, radix, sel >> 8), digits_to_string(&df, radix, sel >> 40))
                                };
                                edit(&base, pos as usize, kind, ch)
                            }
                            _ => FIXED_MALFORMED[(sel % 16) as usize].to_string(),
                        };
                        Case { op: PARSE, lay, lay2: radix as u16, s, ..Case::default() }
                    })
                    .boxed()
            }
            "C09" => (layout_or(stratum), pick(6), ing(), pick(7), any::<u128>(), any::<u128>(), (pick(NCOMBO), pick(8), pick(4)))
                .prop_map(|(lay, tr, ia, amode, r1, r2, (combo, psel, wsel))| {
                    let l = L::from_idx(lay as usize);
                    let mut prec = precision_from(psel, r1 >> 64, l);
                    let a = match amode {
                        0 | 1 => pattern(l, ia),
                        4 => limb_carry_value(l, r1, r2),
                        5 => interval_edge_value(l, r1, r2),
                        6 => match digit_remainder_value(l, r1, r2) {
                            Some((x, m, _)) => {
                                // ask for digits past the chosen position (the state after m digits decides the next ones)
                                if psel % 8 != 0 {
                                    prec = Some(m as usize + 1 + (r2 >> 100) as usize % 6);
                                }
                                x
                            }
                            None => near_short_decimal(l, r1, r2),
                        },
                        _ => near_short_decimal(l, r1, r2),
                    };
                    let width = match wsel {
                        0 => None,
                        1 => Some((r2 >> 64) as usize % 12),
                        2 => Some((r2 >> 64) as usize % 60),
                        _ => Some((r2 >> 64) as usize % 261),
                    };
                    Case { op: FMT, lay, lay2: tr as u16, a, b: Spec { combo, width, prec }.pack(), ..Case::default() }
                })
                .boxed(),
            _ => (layout_or(stratum), ing(), vec(any::<u8>(), 0..21))
                .prop_map(|(lay, ia, bytes)| {
                    let l = L::from_idx(lay as usize);
                    let s: String = bytes.iter().map(|b| format!("{:02x}", b)).collect();
                    Case { op: BYTES, lay, a: pattern(l, ia), s, ..Case::default() }
                })
                .boxed(),
        }
    }
    fn budget(&self, prop: &str, tier: Tier) -> Budget {
        let strata: Vec<u16> = (0..NLAY as u16).collect();
        match (prop, tier) {
            ("C10", Tier::Quick) => Budget { random: 300_000, per_stratum: 200, strata },
            ("C10", Tier::Thorough) => Budget { random: 30_000_000, per_stratum: 20_000, strata },
            ("C09", Tier::Quick) => Budget { random: 3_000_000, per_stratum: 2_000, strata },
            (_, Tier::Quick) => Budget { random: 1_500_000, per_stratum: 1_000, strata },
            (_, Tier::Thorough) => Budget { random: 80_000_000, per_stratum: 40_000, strata },
        }
    }
    fn exh_len(&self, prop: &str, _tier: Tier) -> u64 {
        match prop {
            // every tie of every 8-bit layout x 4 radices x 7 variants
            "C08" => 18 * 256 * 4 * 7 + SHORT_DEC_LEN,
            // every value of every 8-bit layout: default Display/Debug + all radix traits, precision none/0..=9
            "C09" => 18 * 256 * 6 * 11,
            // every value of all 8- and 16-bit layouts
            "C10" => 18 * 256 + 34 * 65536,
            _ => 0,
        }
    }
    fn exh_case(&self, prop: &str, _tier: Tier, i: u64) -> Case {
        let lay8 = |k: u64| -> u16 { if k < 9 { k as u16 } else { (253 + k - 9) as u16 } };
        let lay16 = |k: u64| -> u16 { if k < 17 { (9 + k) as u16 } else { (262 + k - 17) as u16 } };
        match prop {
            "C08" if i >= 18 * 256 * 4 * 7 => short_decimal_case(i - 18 * 256 * 4 * 7),
            "C08" => {
                let a = i % 256;
                let r = i / 256;
                let lay = lay8(r % 18);
                let r = r / 18;
                let radix = RADICES[(r % 4) as usize];
                let variant = (r / 4) as usize;
                let l = L::from_idx(lay as usize);
                let extra = [3u8, 7, 1];
                Case { op: PARSE, lay, lay2: radix as u16, s: tie_literal(l, radix, a as u128, variant, &extra[..(a as usize % 4).min(3)], 0x5a5a_0000 | a as u128), ..Case::default() }
            }
            "C09" => {
                let a = i % 256;
                let r = i / 256;
                let lay = lay8(r % 18);
                let r = r / 18;
                let tr = (r % 6) as u16;
                let p = r / 6;
                let prec = if p == 0 { None } else { Some(p as usize - 1) };
                Case { op: FMT, lay, lay2: tr, a: a as u128, b: Spec { combo: 0, width: None, prec }.pack(), ..Case::default() }
            }
            _ => {
                if i < 18 * 256 {
                    Case { op: BYTES, lay: lay8(i / 256), a: (i % 256) as u128, s: format!("{:02x}", i % 256), ..Case::default() }
                } else {
                    let k = i - 18 * 256;
                    Case { op: BYTES, lay: lay16(k / 65536), a: (k % 65536) as u128, s: format!("{:04x}{:02x}", k % 65536, k % 251), ..Case::default() }
                }
            }
        }
    }
    fn exh_desc(&self, prop: &str, _tier: Tier) -> String {
        match prop {
            "C08" => "every rounding tie (k+1/2 ulp) of every value k of all 18 eight-bit layouts x radix {2,8,10,16} x 7 literal variants (exact tie, prefix, last digit +-1, hair above/below, random tail); every one- and two-digit decimal fraction (0.0 .. 0.9, 0.00 .. 0.99) on every one of the 506 layouts x integer part {0, the layout's largest} x {exact, hair above after 20/30/56/130 zeros, hair below with 20/30/56/130 nines} (and after 1100 for the one-digit fractions), both signs".into(),
            "C09" => "every value of all 18 eight-bit layouts x 6 formatting traits x precision {none, 0..=9}".into(),
            "C10" => "every bit pattern of all 18 eight-bit and 34 sixteen-bit layouts".into(),
            _ => String::new(),
        }
    }
    fn rule(&self, prop: &str) -> String {
        match prop {
            "C08" => "cases = (layout, radix, string): grammar literals with 0..230 digits per part, literals around rounding ties (exact tie, prefixes, last digit +-1, tie+0..01, tie-1 then 9..9, random tails, beyond the fast-path digit budgets), representable values written out with tails, strings one edit away from a valid literal, fixed malformed strings, decimal digit groups solved to sit on a limb boundary of a multi-word accumulator (h*10^p = -+k*2^p mod 2^b). Oracle: tokeniser from the stated grammar, exact rational N/radix^k, RNE(value*2^f) in big integers, then the form rules (plain Err(overflow) iff rounded value out of range, saturating bound on the literal's side, wrapping/overflowing value mod 2^w + flag; malformed => Err in every form; no unwinding). Non-trivial: valid literal whose value is not on the layout's grid, or a malformed string.".into(),
            "C09" => "cases = (layout, value, trait in {Display, Debug, Binary, Octal, LowerHex, UpperHex}, precision none|0..=200, width none|0..=260, 160 fill/align (fill characters of 1, 2, 3 and 4 UTF-8 bytes and ASCII fills that are format-syntax characters)/+/#/0 combinations); values from the operand classes plus near-short-decimal values round(d*2^f)+-2 and values whose shortest decimal form is a limb-boundary digit group. Oracle: with precision the exact string RNE at p digits; without precision a validity predicate (digits shown are the RNE at the number of digits shown, the string denotes exactly this value, exact in radix 2/8/16) and the library's own FromStr round trip; flags: metamorphic against the reference padding model (self-tested against std's integer formatting) applied to the no-flag output. Non-trivial: fraction non-zero and (default precision or precision below the digits needed).".into(),
            "C10" => "cases = (layout, bit pattern, 0..20 input bytes); every pattern of the 8/16-bit layouts enumerated. Oracle: width/8 little-endian bytes of the raw value: encode == encode(bits) == to_le_bytes, encoded_size == max_encoded_len == width/8, decode(encode) identity, decoding generated bytes (value from the first width/8 bytes, exactly that many consumed, failure when fewer), le/be/ne round trips and mutual reversal, from_bits/to_bits and Wrapping round trips, serde_json form exactly {\"bits\":<integer>} for F and Wrapping<F> and back; the serde data model recorded by a serializer answering is_human_readable() true and false (one record, single field bits, the integer) and played back through a self-describing deserializer. Non-trivial: bytes not all equal.".into(),
            _ => String::new(),
        }
    }
    fn assumptions(&self, _prop: &str) -> Vec<String> {
        vec!["oracle: harness Big integers, own tokeniser / digit expansion; reference padding model self-tested against std integer formatting".into()]
    }
    fn required_classes(&self, prop: &str, _tier: Tier) -> Vec<&'static str> {
        match prop {
            "C08" => vec!["exact-tie-even", "exact-tie-odd", "malformed", "overflow", "long-literal(>54 digits)", "negative-on-unsigned", "radix2", "radix8", "radix10", "radix16", "carry-out-of-fraction", "digit-group-on-limb-boundary(27,128)", "very-long-literal(>1100 digits)"],
            "C09" => vec!["precision-given", "default-precision", "carry-into-integer", "tie-at-cut", "zero-fill-beyond-digits", "flags", "all-fraction-layout", "width-pads"],
            "C10" => vec!["input-too-short", "input-longer", "w128"],
            _ => vec![],
        }
    }
    fn echo(&self, _prop: &str, c: &Case) -> Option<Case> {
        let mut s = c.clone();
        s.lay = vcore::run::same_width_layout(c.lay, c.a as u64 ^ (c.b as u64).rotate_left(17) ^ c.s.len() as u64);
        if s.lay == c.lay { None } else { Some(s) }
    }
    fn eval(&self, prop: &str, c: &Case, chk: bool, kf: &Kf) -> Eval {
        let mut ev = Eval::default();
        let l = L::from_idx(c.lay as usize);
        let outs = exec(c);
        let mut note = String::new();
        for (label, got) in &outs {
            if note.len() < 200 && !matches!(got, Out::Na) {
                note.push_str(&format!("{}={} ", label, got.show()));
            }
        }
        let mut fail = |ev: &mut Eval, label: &str, got: &Out, want: String| {
            if let Some(id) = kf::matches(kf, prop, c, label, got, chk) {
                if !ev.known.contains(&id) {
                    ev.known.push(id);
                }
                return;
            }
            ev.fails.push(Fail { label: label.to_string(), got: got.show(), want });
        };
        match c.op {
            PARSE => {
                let radix = c.lay2 as u32;
                ev.class(match radix {
                    2 => "radix2",
                    8 => "radix8",
                    16 => "radix16",
                    _ => "radix10",
                });
                match tokenise(&c.s, radix) {
                    Parsed::Malformed => {
                        ev.class("malformed");
                        ev.nontrivial = true;
                        for (label, got) in &outs {
                            if !Exp::AnyErr.accepts(got, chk) {
                                fail(&mut ev, label, got, "Err(_) (malformed literal)".into());
                            }
                        }
                    }
                    Parsed::Value { neg, num, k } => {
                        let (r, exact) = round_literal(neg, &num, k, radix, l.f);
                        let fits = l.fits(&r);
                        let wr = l.wrap(&r);
                        for (label, got) in &outs {
                            let exp = match (*label, fits) {
                                ("plain", true) | ("parse()", true) | ("saturating", true) | ("wrapping", _) | ("Wrapping.parse()", _) | ("Wrapping::from_str", _) | ("Wrapping::from_str_radix", _) => Exp::Is(Out::V(wr)),
                                ("plain", false) | ("parse()", false) => {
                                    if overflow_error_ok(got) {
                                        Exp::Free
                                    } else {
                                        Exp::Is(Out::E("an overflow error (Err whose text differs from the texts given for malformed literals)".to_string()))
                                    }
                                }
                                ("saturating", false) => Exp::Is(Out::V(l.clamp(&r))),
                                ("overflowing", _) => Exp::Is(Out::F(wr, !fits)),
                                _ => Exp::Free,
                            };
                            if !exp.accepts(got, chk) {
                                fail(&mut ev, label, got, exp.show());
                            }
                        }
                        ev.nontrivial = !exact;
                        if !fits {
                            ev.class("overflow");
                        }
                        if neg && !l.signed && !num.is_zero() {
                            ev.class("negative-on-unsigned");
                        }
                        if c.s.len() > 56 {
                            ev.class("long-literal(>54 digits)");
                        }
                        if c.s.len() > 1100 {
                            ev.class("very-long-literal(>1100 digits)");
                        }
                        if radix == 10 {
                            if let Some((_, fr)) = c.s.split_once('.') {
                                let fr: Vec<u8> = fr.bytes().filter(|b| b.is_ascii_digit()).collect();
                                if vcore::lit::on_limb_boundary(&fr, 27, 128) {
                                    ev.class("digit-group-on-limb-boundary(27,128)");
                                }
                            }
                        }
                        // tie classification
                        let den = Big::from_u64(radix as u64).pow(k);
                        let (q, rem) = num.shl(l.f).divrem_trunc(&den);
                        if !rem.is_zero() && rem.shl(1) == den {
                            ev.class(if q.is_odd() { "exact-tie-odd" } else { "exact-tie-even" });
                        } else if !rem.is_zero() {
                            let dist = (&rem.shl(1) - &den).abs();
                            if dist.shl(20) < den {
                                ev.class("hair-from-tie");
                            }
                        }
                        if !exact && l.f > 0 && r.abs().shr_trunc(l.f) != num.divrem_trunc(&den).0 {
                            ev.class("carry-out-of-fraction");
                        }
                        ev.class("valid-literal");
                    }
                }
            }
            FMT => {
                let spec = Spec::unpack(c.b);
                let tr = c.lay2;
                let a = c.a & l.mask();
                let (_, prefix, _) = radix_of_trait(tr);
                let get = |name: &str| outs.iter().find(|(n, _)| *n == name).map(|x| x.1.clone()).unwrap_or(Out::Na);
                let plain = get("plain");
                match &plain {
                    Out::S(t) => {
                        if let Err(want) = check_plain_format(l, a, tr, spec.prec, t) {
                            fail(&mut ev, "plain", &plain, want);
                        }
                        let flags = get("flags");
                        let want = ref_pad(t, spec, prefix);
                        if flags != Out::S(want.clone()) {
                            fail(&mut ev, "flags", &flags, format!("{:?} (= {} applied to the no-flag output {:?})", want, spec.describe(), t));
                        }
                        if tr == 1 {
                            // Debug reached through `{:x?}` / `{:X?}`: the same decimal text, padded by the sign / `#` / `0`
                            // flags, width and precision of the specification
                            let s8 = Spec { combo: spec.combo % 8, ..spec };
                            let want = ref_pad(t, s8, prefix);
                            for lab in ["debug_x?", "debug_X?"] {
                                let got = get(lab);
                                if got != Out::S(want.clone()) {
                                    fail(&mut ev, lab, &got, format!("{:?} (Debug prints the decimal expansion whatever the conversion; {} with {} applied to {:?})", want, lab, s8.describe(), t));
                                }
                            }
                            ev.class("debug-hex-conversion({:x?},{:X?})");
                        }
                        if tr <= 1 && spec.prec.is_none() {
                            let rt = get("roundtrip");
                            if rt != Out::V(a) {
                                fail(&mut ev, "roundtrip", &rt, format!("{:#x} (FromStr of the default output {:?})", a, t));
                            }
                        }
                        if tr == 0 && spec.prec.is_none() {
                            let ts = get("to_string");
                            if ts != plain {
                                fail(&mut ev, "to_string", &ts, format!("{:?}", t));
                            }
                        }
                        if spec.width.map(|w| w > t.chars().count()).unwrap_or(false) {
                            ev.class("width-pads");
                        }
                    }
                    other => fail(&mut ev, "plain", other, "a formatted string".into()),
                }
                // classes
                let av = l.val(a);
                let fr_mask = if l.f == 0 { 0 } else if l.f == 128 { u128::MAX } else { (1u128 << l.f) - 1 };
                let frac_nonzero = av.abs().low_u128() & fr_mask != 0;
                let (radix, _, _) = radix_of_trait(tr);
                let needed = if radix == 10 { l.f - (av.abs().low_u128() & fr_mask).trailing_zeros().min(l.f) } else { 0 };
                if let Some(p) = spec.prec {
                    ev.class("precision-given");
                    if frac_nonzero {
                        let scaled = av.abs().mul(&Big::from_u64(radix as u64).pow(p as u32));
                        let rem = &scaled - &scaled.shr_trunc(l.f).shl(l.f);
                        if l.f > 0 && rem == Big::pow2(l.f - 1) {
                            ev.class("tie-at-cut");
                        }
                        let (wi, _) = rounded_digits(&av.abs(), l.f, radix, p as u32);
                        if wi != av.abs().shr_trunc(l.f).to_digits(radix) {
                            ev.class("carry-into-integer");
                        }
                    }
                    if p as u32 > l.f {
                        ev.class("zero-fill-beyond-digits");
                    }
                    ev.nontrivial = frac_nonzero && (p as u32) < needed.max(1);
                } else {
                    ev.class("default-precision");
                    ev.nontrivial = frac_nonzero;
                }
                if spec.combo != 0 {
                    ev.class("flags");
                }
                if l.int_bits() == 0 {
                    ev.class("all-fraction-layout");
                }
                ev.class(TRAIT_NAMES[tr as usize % 6]);
            }
            _ => {
                let a = c.a & l.mask();
                let n = (l.w / 8) as usize;
                let le: Vec<u8> = a.to_le_bytes()[..n].to_vec();
                let be: Vec<u8> = le.iter().rev().cloned().collect();
                let ne = if cfg!(target_endian = "little") { le.clone() } else { be.clone() };
                let input: Vec<u8> = (0..c.s.len() / 2).filter_map(|i| u8::from_str_radix(&c.s[2 * i..2 * i + 2], 16).ok()).collect();
                let from_le = |b: &[u8]| -> u128 { b.iter().enumerate().fold(0u128, |acc, (i, x)| acc | (*x as u128) << (8 * i)) };
                let json = format!("{{\"bits\":{}}}", l.val(a));
                for (label, got) in &outs {
                    let exp = match *label {
                        "encode" | "encode_bits" | "to_le_bytes" | "using_encoded" | "using_encoded(ref)" | "using_encoded(box)" | "using_encoded(tuple1)" | "encode(ref)" | "encode(arc)" => Exp::Is(Out::Y(le.clone())),
                        "to_keyed_vec" | "joiner_and" => {
                            let mut v = vec![0xAAu8];
                            v.extend_from_slice(&le);
                            Exp::Is(Out::Y(v))
                        }
                        "encoded_size(box)" => Exp::Is(Out::V(n as u128)),
                        "to_be_bytes" => Exp::Is(Out::Y(be.clone())),
                        "to_ne_bytes" => Exp::Is(Out::Y(ne.clone())),
                        "encoded_size" | "max_encoded_len" => Exp::Is(Out::V(n as u128)),
                        "decode(encode)" | "serde_back" | "serde_wrapping_back" | "serde_from_bits_json" | "decode_stream(encode)" | "decode_record" | "decode_vec" | "decode_all(encode)" | "decode_box" | "decode_rc" | "decode_arc" | "decode_array" | "decode_option"
                        | "decode_boxed_record" | "skip_then_decode" => Exp::Is(Out::O(Some(a))),
                        "encode_array" => {
                            let mut v = le.clone();
                            v.extend_from_slice(&le);
                            v.extend_from_slice(&le);
                            Exp::Is(Out::Y(v))
                        }
                        "encode_to" => {
                            let mut v = vec![0xAAu8];
                            v.extend_from_slice(&le);
                            Exp::Is(Out::Y(v))
                        }
                        // None is allowed (the codec does not require it); a wrong size is not
                        "encoded_fixed_size" => match got {
                            Out::O(None) => Exp::Free,
                            _ => Exp::Is(Out::O(Some(n as u128))),
                        },
                        "serde_model_back(human)" | "serde_model_back(binary)" | "serde_model_wrapping_back(human)" | "serde_model_wrapping_back(binary)"
                        | "serde_model_play(human)" | "serde_model_play(binary)" => Exp::Is(Out::O(Some(a))),
                        "serde_model(human)" | "serde_model(binary)" | "serde_model_wrapping(human)" | "serde_model_wrapping(binary)" => Exp::Is(Out::S(format!("{}", l.val(a)))),
                        "decode_limits_like_integer" => Exp::Is(Out::V(0)),
                        "encode_record" => {
                            let mut v = vec![7u8];
                            v.extend_from_slice(&le);
                            v.extend_from_slice(&[0xEF, 0xBE]);
                            Exp::Is(Out::Y(v))
                        }
                        "encode_vec" => {
                            // compact length 2 -> 0x08, then the elements
                            let mut v = vec![8u8];
                            v.extend_from_slice(&le);
                            v.extend_from_slice(&le);
                            Exp::Is(Out::Y(v))
                        }
                        "from_le(to_le)" | "from_be(to_be)" | "from_ne(to_ne)" | "from_bits(to_bits)" | "to_bits" | "wrapping_bits" | "wrapping_field" => Exp::Is(Out::V(a)),
                        "serde_json" | "serde_wrapping" => Exp::Is(Out::S(json.clone())),
                        "decode_input" | "decode_stream" => {
                            if input.len() >= n {
                                Exp::Is(Out::F(from_le(&input[..n]), true))
                            } else {
                                Exp::Is(Out::O(None))
                            }
                        }
                        "from_le_input" if input.len() >= n => Exp::Is(Out::V(from_le(&input[..n]))),
                        "from_be_input" if input.len() >= n => {
                            let mut r: Vec<u8> = input[..n].to_vec();
                            r.reverse();
                            Exp::Is(Out::V(from_le(&r)))
                        }
                        _ => Exp::Free,
                    };
                    if !exp.accepts(got, chk) {
                        fail(&mut ev, label, got, exp.show());
                    }
                }
                if input.len() < n {
                    ev.class("input-too-short");
                } else if input.len() > n {
                    ev.class("input-longer");
                } else {
                    ev.class("input-exact");
                }
                if l.w == 128 {
                    ev.class("w128");
                }
                ev.nontrivial = le.iter().any(|b| *b != le[0]) || n == 1;
            }
        }
        ev.note = note;
        ev
    }
    fn exec_raw(&self, _prop: &str, c: &Case) -> Outs {
        exec(c)
    }
    fn selftest(&self) -> Result<u64, String> {
        // the digit-remainder solve: frac(x 10^m) is the chosen pattern
        let mut z = 0x9e37_79b9_7f4a_7c15_f39c_c060_5ced_c835u128;
        for name in ["U0F128", "I16F112", "U28F100", "I64F64", "U3F61", "I9F23", "U0F8", "I1F127"] {
            let l = L::parse(name).unwrap();
            for _ in 0..40 {
                z = z.wrapping_mul(0x2360_ed05_1fc6_5da4_4385_df64_9fcc_f645).wrapping_add(0x1405_7b7e_f767_814f);
                let (r1, r2) = (z, z.rotate_left(61) ^ 0x5555_aaaa);
                if let Some((raw, m, rem)) = digit_remainder_value(l, r1, r2) {
                    let y = Big::from_u128(if l.f == 128 { raw } else { raw & ((1u128 << l.f) - 1) });
                    let got = y.mul(&Big::from_u64(10).pow(m)).rem_trunc(&Big::pow2(l.f));
                    if got != Big::from_u128(rem) {
                        return Err(format!("digit_remainder_value: {} m={} remainder {} != chosen {:#x}", name, m, got.to_digits(16), rem));
                    }
                }
            }
        }
        // tokeniser / rounding on hand-written vectors
        let l = L::parse("U4F4").unwrap();
        let t = |s: &str, radix: u32| -> Option<i128> {
            match tokenise(s, radix) {
                Parsed::Malformed => None,
                Parsed::Value { neg, num, k } => round_literal(neg, &num, k, radix, l.f).0.to_i128(),
            }
        };
        let v = [
            (t("1.5", 10), Some(24)),
            (t("0.03125", 10), Some(0)),   // tie 0.5 ulp -> even 0
            (t("0.09375", 10), Some(2)),   // 1.5 ulp -> 2
            (t("0.031250001", 10), Some(1)),
            (t("+.5", 10), Some(8)),
            (t("7.", 10), Some(112)),
            (t("-0.1", 10), Some(-2)),
            (t("", 10), None),
            (t(".", 10), None),
            (t("1.2.3", 10), None),
            (t("1-", 10), None),
            (t("1_0", 10), None),
            (t("ff.8", 16), Some(0xff8)),
            (t("FF.8", 16), Some(0xff8)),
            (t("0.00001", 2), Some(0)),
            (t("0.00011", 2), Some(2)),
            (t("12", 2), None),
            (t("7.7", 8), Some(126)),
        ];
        for (i, (g, w)) in v.iter().enumerate() {
            if g != w {
                return Err(format!("text parse oracle selftest {}: got {:?} want {:?}", i, g, w));
            }
        }
        // expansion: 221.86328125 = 0xDDDD / 256 (vectors from the Rust-documented expansions)
        let l = L::parse("U8F8").unwrap();
        let chk = |p: usize, want: &str| -> Result<(), String> { check_plain_format(l, 0xdddd, 0, Some(p), want) };
        chk(0, "222")?;
        chk(1, "221.9")?;
        chk(5, "221.86328")?;
        chk(7, "221.8632812")?;
        chk(9, "221.863281250")?;
        check_plain_format(l, 0xdddd, 2, Some(4), "11011101.1110")?;
        check_plain_format(l, 0xdddd, 0, None, "221.863")?;
        check_plain_format(l, 0xff80, 0, Some(0), "256")?;
        check_plain_format(l, 0xfe80, 0, Some(0), "254")?;
        check_plain_format(l, 0xdddd, 5, None, "DD.DD")?;
        if check_plain_format(l, 0xdddd, 0, None, "221.9").is_ok() || check_plain_format(l, 0xdddd, 0, Some(2), "221.87").is_ok() {
            return Err("text format oracle accepts wrong output".into());
        }
        if tie_literal(L::parse("U8F0").unwrap(), 10, 3, 0, &[], 0xff) != "3.5" {
            return Err(format!("tie_literal selftest: {}", tie_literal(L::parse("U8F0").unwrap(), 10, 3, 0, &[], 0xff)));
        }
        Ok(v.len() as u64 + 12)
    }
}

pub fn main_entry() {
    std::process::exit(vcore::run::main_with2(&Text, lay::is_chk(), lay::is_oc()));
}
