//! arith engine, part ua (a separate crate only so that it compiles in parallel).
include!("../../shared/arith_ops.rs");

pub fn run(st: usize, lay_idx: u16, op: u16, a: u128, b: u128, outs: &mut Outs) {
    lay::with_layout_ua!(lay_idx as usize, F => run_unsigned::<F>(st, op, a, b, outs))
}

pub fn run_program(st: usize, lay_idx: u16, a: u128, prog: &[(u16, u128, u128)], s: &str, outs: &mut Outs) {
    lay::with_layout_ua!(lay_idx as usize, F => run_prog_unsigned::<F>(st, a, prog, s, outs))
}

pub fn run_misc(st: usize, lay_idx: u16, sel: u128, a: u128, b: u128, outs: &mut Outs) {
    lay::with_layout_ua!(lay_idx as usize, F => run_misc_unsigned::<F>(st, sel, a, b, outs))
}
