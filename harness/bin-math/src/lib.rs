//! Engine `math`: C12 (totality), C13 (sqrt), C14 (log2/ln), C15 (exp/pow/powi),
//! C16 (sin/cos/tan), C17 (bounded work) for `substrate_fixed::transcendental`.
//! Oracles: exact integer bracket (sqrt), 320-bit fixed-point log/exp (`vcore::mp`),
//! exact rational powers, f64 libm with explicit margin (trig), hook loop counter.

mod kf;

use math_ops::*;
use proptest::prelude::*;
use vcore::gen::{ing, pattern, pick, Ing};
pub use vcore::mp::{self, Mp, P};
use vcore::out::{drive, Outs};
use vcore::run::{Budget, Engine, Kf, Tier};
use vcore::{Big, Case, Eval, Fail, Out, L};

pub struct Math;

const NO_LIMIT: u64 = u64::MAX;
/// work limit for checks other than C17: turns a runaway loop into a counted skip, not a hang
const SOFT_LIMIT: u64 = 200_000;
/// powi with an exponent the tier cannot afford to run to the end (`Case::c == 1`): the call is run for this many loop
/// iterations; whatever happens before that (a panic in a shortcut or an estimate in front of the loop, an early Err / Ok)
/// is judged, a call still running then is counted and not asserted
const PREFIX_LIMIT: u64 = 1 << 20;
fn powi_limit(c: &Case) -> u64 {
    if c.c == 1 { PREFIX_LIMIT } else { NO_LIMIT }
}

fn c17_limit(dl: L) -> u64 {
    4 * dl.w as u64 + 64
}

fn exec(c: &Case, limit: u64) -> Outs {
    let (pair, op, a, b) = (c.lay2 as usize, c.op, c.a, c.b);
    // history: calls made before the judged one (their results are not judged here; each of them is a case of its own
    // elsewhere). A function of the crate is pure: what it returns must not depend on what was called before.
    for &(packed, pa, pb) in &c.prog {
        let (pop, ppair) = (packed & 15, (packed >> 4) as usize);
        if ppair < NALL && (accepts(pair_info(ppair).2, pop) || primer_accepts(pair_info(ppair).2, pop)) {
            let _ = drive(&mut |st, outs| math_ops::run(st, ppair, pop, pa, pb, SOFT_LIMIT, outs));
        }
    }
    drive(&mut |st, outs| math_ops::run(st, pair, op, a, b, limit, outs))
}

/// calls to make before the judged call `(op, pair, a, b)`: the same raw operand bits in another type pair of the same
/// source width (state keyed by raw bits), the same call twice, a sibling function on the same operand, the same function
/// on a neighbouring operand
fn history(op: u16, pair: u16, a: u128, b: u128, h: u32) -> Vec<(u16, u128, u128)> {
    if h % 5 != 0 {
        return Vec::new();
    }
    let h = h / 5;
    let (sl, _, _) = pair_info(pair as usize);
    let pack = |o: u16, p: u16| o | (p << 4);
    let mut v = Vec::new();
    let other_pair = |o: u16, sel: u32| -> Option<u16> {
        let ps: Vec<u16> = pairs_for(o).into_iter().filter(|p| *p != pair && pair_info(*p as usize).0.w == sl.w).collect();
        if ps.is_empty() { None } else { Some(ps[sel as usize % ps.len()]) }
    };
    match h % 6 {
        5 => {
            // the same VALUE (operand and, for pow, exponent) in another pair, preferably one whose destination is coarser:
            // a result remembered from a coarser computation must not be served to a finer one
            let (_, dl, _) = pair_info(pair as usize);
            let all: Vec<u16> = pairs_for(op).into_iter().filter(|p| *p != pair).collect();
            let coarser: Vec<u16> = all.iter().cloned().filter(|p| pair_info(*p as usize).1.f < dl.f).collect();
            let pool = if !coarser.is_empty() && (h >> 3) & 3 != 0 { &coarser } else { &all };
            if !pool.is_empty() {
                let p2 = pool[(h >> 5) as usize % pool.len()];
                let s2 = pair_info(p2 as usize).0;
                let conv = |x: u128| -> u128 {
                    let v = sl.val(x);
                    s2.wrap(&if s2.f >= sl.f { v.shl(s2.f - sl.f) } else { v.shr_floor(sl.f - s2.f) })
                };
                let pb = if op == POW { if (h >> 4) & 1 == 0 { conv(b) } else { s2.wrap(&Big::from_i64(2).shl(s2.f)) } } else { b };
                v.push((pack(op, p2), conv(a), pb));
            }
        }
        4 => {
            // a call on a type outside the scope (fewer fraction bits) with the same value (or the same bits): state it
            // leaves behind must not reach the judged call
            let pp = (NPAIRS + (h >> 3) as usize % (NALL - NPAIRS)) as u16;
            let pl = pair_info(pp as usize).0;
            let pop = if primer_accepts(PK::Prime, op) { op } else { [SQRT, LOG2, SIN][(h >> 6) as usize % 3] };
            let pa = if (h >> 8) & 1 == 0 {
                // the same value, fraction bits dropped (floor), wrapped into the coarse type
                pl.wrap(&if sl.f >= pl.f { sl.val(a).shr_floor(sl.f - pl.f) } else { sl.val(a).shl(pl.f - sl.f) })
            } else {
                a & pl.mask()
            };
            v.push((pack(pop, pp), pa, 0));
            if (h >> 9) & 1 == 1 {
                if let Some(p2) = other_pair(op, h >> 10) {
                    v.push((pack(op, p2), a, b));
                }
            }
        }
        0 => {
            if let Some(p2) = other_pair(op, h >> 2) {
                v.push((pack(op, p2), a, b));
            }
        }
        1 => v.push((pack(op, pair), a, b)),
        2 => {
            let sib = match op {
                LOG2 => LN,
                LN => LOG2,
                EXP => POW,
                POW => LN,
                SIN => COS,
                COS => TAN,
                TAN => SIN,
                o => o,
            };
            if accepts(pair_info(pair as usize).2, sib) {
                v.push((pack(sib, pair), a, b));
            }
            if let Some(p2) = other_pair(sib, h >> 2) {
                v.push((pack(sib, p2), a, b));
            }
        }
        _ => {
            v.push((pack(op, pair), a ^ (1u128 << ((h >> 2) % sl.w.min(24))), b));
            if let Some(p2) = other_pair(op, h >> 7) {
                v.push((pack(op, p2), a, b));
            }
        }
    }
    v
}

fn hammer_threads() -> u64 {
    std::env::var("VERIF_THREADS").ok().and_then(|s| s.parse().ok()).unwrap_or(16u64).max(1)
}
/// Case `i` of the concurrency hammer. The runner gives worker `t` the indices `t, t + w, t + 2w, ...`; the mapping
/// makes every worker evaluate each of its cases twice in a row, and different workers different cases at the same time.
fn hammer_case(prop: &str, i: u64) -> Case {
    let w = hammer_threads();
    let (t, j) = (i % w, i / w);
    let k = (t + w * (j / 2)) % 64;
    let (op, pairs): (u16, &[u16]) = match prop {
        "C13" => (SQRT, &[4, 8, 0, 19, 1, 3, 18, 2]),
        "C14" => (if k % 2 == 0 { LOG2 } else { LN }, &[4, 8, 0, 1, 3, 2]),
        _ => (if k % 3 == 0 { POW } else { EXP }, &[4, 8, 0, 1, 3, 2]),
    };
    let pair = pairs[(k as usize / 2) % pairs.len()];
    let (sl, _, _) = pair_info(pair as usize);
    let one = 1u128 << sl.f;
    let k = if sl.int_bits() < 16 { k % 12 } else { k };
    let (a, b) = match op {
        SQRT => (((k + 2) * (k + 2)) as u128 * one, 0),
        LOG2 | LN => ((k + 2) as u128 * one + (k as u128) * (one >> 5), 0),
        EXP => ((k as u128) * (one >> 3), 0),
        _ => (one + (k + 1) as u128 * (one >> 4), 3 * one),
    };
    Case { op, lay: sl.idx() as u16, lay2: pair, a: a & sl.mask(), b, ..Case::default() }
}

fn funs_of(prop: &str) -> &'static [u16] {
    match prop {
        "C12" | "C17" => &[SQRT, LOG2, LN, EXP, POW, POWI, SIN, COS, TAN],
        "C13" => &[SQRT],
        "C14" => &[LOG2, LN],
        "C15" => &[EXP, POW, POWI, EXP, POW],
        "C16" => &[SIN, COS, TAN],
        _ => &[],
    }
}

/// index of the same-type pair S -> S (the first 11 pairs), or 0
fn pair_of_same(l: L) -> u16 {
    (0..NPAIRS as u16).find(|i| { let (s, d, _) = pair_info(*i as usize); s == l && d == l }).unwrap_or(0)
}

fn pairs_for(op: u16) -> Vec<u16> {
    (0..NPAIRS as u16).filter(|i| accepts(pair_info(*i as usize).2, op)).collect()
}

/// x (raw in S) -> raw in D's scale (From is exact: f_d >= f_s)
fn to_d(sl: L, dl: L, a: u128) -> Big {
    sl.val(a).shl(dl.f - sl.f)
}

fn log_uniform(l: L, r1: u128, r2: u128, positive: bool) -> u128 {
    let top = if l.signed { l.w - 1 } else { l.w };
    let k = (r2 % top as u128) as u32;
    let v = (1u128 << k) | (r1 & ((1u128 << k) - 1));
    if !positive && l.signed && (r2 >> 64) & 1 == 1 {
        v.wrapping_neg() & l.mask()
    } else {
        v
    }
}

/// raw pattern of the real value v (given as Mp) in layout l, saturated to the range
fn mp_to_raw(l: L, v: &Mp) -> u128 {
    let r = if l.f <= P { v.shr_floor(P - l.f) } else { v.shl(l.f - P) };
    l.clamp(&r)
}

/// atan(2^-i) as Mp (alternating series; pi/4 for i = 0)
fn atan_pow2(i: u32) -> Mp {
    if i == 0 {
        return pi_mp().shr_floor(2);
    }
    // sum (-1)^k 2^(-i(2k+1)) / (2k+1)
    let mut sum = Big::zero();
    let mut k = 0u32;
    loop {
        let sh = i * (2 * k + 1);
        if sh >= P {
            break;
        }
        let term = Big::pow2(P - sh).divrem_small(2 * k + 1).0;
        sum = if k % 2 == 0 { sum.add(&term) } else { sum.sub(&term) };
        k += 1;
    }
    sum
}

fn pi_mp() -> Mp {
    // 3.14159265358979323846264338327950288419716939937510582097494 (60 digits)
    let d = b"314159265358979323846264338327950288419716939937510582097494";
    mp::from_ratio(&Big::from_digits(d, 10), &Big::from_u64(10).pow(59))
}

/// Exact backward orbits of log2's refinement map from its fixed point 1.0. The map on a mantissa M in [2^F, 2^(F+1))
/// (raw units) is M -> floor(M^2 / 2^F), followed by a rounding halving when that reaches 2.0. Level d holds
/// mantissas that land exactly on 1.0 after d steps (level 1: the values just above sqrt 2 whose truncated square is
/// 2.0, ...). The tree is critical (about one preimage per node): for most fraction widths it dies after a few
/// levels, for a few it reaches depth F. Computed once per fraction width, frontier capped at 64 nodes per level.
/// Level 0 also holds 1.0 + k ulp for small k, so the orbits also end a hair above 1.0.
fn log2_orbit_levels(f: u32) -> std::sync::Arc<Vec<Vec<Big>>> {
    use std::collections::HashMap;
    use std::sync::{Arc, Mutex, OnceLock};
    static CACHE: OnceLock<Mutex<HashMap<u32, Arc<Vec<Vec<Big>>>>>> = OnceLock::new();
    let cache = CACHE.get_or_init(|| Mutex::new(HashMap::new()));
    if let Some(v) = cache.lock().unwrap().get(&f) {
        return v.clone();
    }
    let (one, two, four) = (Big::pow2(f), Big::pow2(f + 1), Big::pow2(f + 2));
    let preimages = |y: &Big| -> Vec<Big> {
        let mut squares = Vec::new();
        if *y < two {
            squares.push(y.clone());
        }
        for c in [y.shl(1).add_i64(-1), y.shl(1)] {
            if c >= two && c < four {
                squares.push(c);
            }
        }
        let mut out = Vec::new();
        for c in squares {
            // floor(M^2 / 2^F) == c  <=>  c 2^F <= M^2 <= (c + 1) 2^F - 1
            let lo_sq = c.shl(f);
            let hi = isqrt(&c.add_i64(1).shl(f).add_i64(-1));
            let fl = isqrt(&lo_sq);
            let mut m = if fl.mul(&fl) == lo_sq { fl } else { fl.add_i64(1) };
            while m <= hi {
                if m >= one && m < two && m != *y {
                    out.push(m.clone());
                }
                m = m.add_i64(1);
            }
        }
        out
    };
    // level 0: the fixed point 1.0 and the mantissas a few ulps above it (from which the squarings only double the
    // excess for a long run)
    let mut levels: Vec<Vec<Big>> = vec![(0..12).map(|k| one.add_i64(k)).collect()];
    for _ in 0..f {
        let mut next: Vec<Big> = Vec::new();
        for y in levels.last().unwrap() {
            for m in preimages(y) {
                if next.len() < 64 && !next.contains(&m) {
                    next.push(m);
                }
            }
        }
        if next.is_empty() {
            break;
        }
        levels.push(next);
    }
    let v = Arc::new(levels);
    cache.lock().unwrap().insert(f, v.clone());
    v
}

/// The mathematical constants a fixed-point library names (e, pi and its fractions, logarithms of 2 / e / 10, square
/// roots), as 320-bit values. Operand class: each of them at the resolution of the module's own I9F23 constants (23
/// fraction bits, low bits zero in a finer type) and at the type's full resolution, truncated or rounded, -+ 1 ulp,
/// either sign. A shortcut keyed on "the operand is the constant X" is reached only by feeding X.
fn named_constants() -> &'static Vec<Mp> {
    use std::sync::OnceLock;
    static C: OnceLock<Vec<Mp>> = OnceLock::new();
    C.get_or_init(|| {
        let pi = pi_mp();
        let one = mp::one();
        let e = mp::exp(&one);
        let ln2 = mp::ln2();
        let ln10 = mp::ln_of(&Big::from_u64(10), 0);
        let sqrt = |n: u64| -> Mp { isqrt(&Big::from_u64(n).shl(2 * P)) };
        let mut v = vec![
            e.clone(),
            pi.clone(),
            pi.shl(1),
            pi.shr_floor(1),
            pi.shr_floor(2),
            pi.shr_floor(3),
            pi.divrem_small(3).0,
            pi.divrem_small(6).0,
            mp::div(&one, &pi),
            mp::div(&one.shl(1), &pi),
            mp::div(&one, &pi.shl(1)),
            ln2.clone(),
            ln10.clone(),
            mp::div(&one, &ln2),   // log2 e
            mp::div(&ln10, &ln2),  // log2 10
            mp::div(&ln2, &ln10),  // log10 2
            mp::div(&one, &ln10),  // log10 e
            sqrt(2),
            mp::div(&one, &sqrt(2)),
            sqrt(3),
            mp::div(&one.shl(1), &sqrt(3)),
            mp::div(&one.shl(1), &isqrt(&pi.shl(P))), // 2 / sqrt(pi)
            mp::div(&one, &e),
            mp::mul(&e, &e),
            sqrt(5).add(&one).shr_floor(1), // golden ratio
        ];
        v.push(mp::exp(&e));
        v
    })
}

fn named_constant_operand(sl: L, r: u128) -> u128 {
    let cs = named_constants();
    let c = &cs[(r % cs.len() as u128) as usize];
    let r = r >> 8;
    let bits = match r % 4 {
        0 => 23.min(sl.f),
        1 => sl.f,
        2 => sl.f,
        _ => [16u32, 32, 48, 64, 31, 55, 23, 24][((r >> 8) % 8) as usize].min(sl.f),
    };
    // value at `bits` fraction bits (truncated, or rounded to nearest for variant 2), then widened to the type
    let mut v = c.shr_floor(P - bits);
    if r % 4 == 2 && c.shr_floor(P - bits - 1).is_odd() {
        v = v.add_i64(1);
    }
    let v = v.shl(sl.f - bits).add_i64(if (r >> 6) & 3 == 3 { ((r >> 4) % 3) as i64 - 1 } else { 0 });
    let v = if (r >> 12) & 7 == 7 && sl.signed { v.neg() } else { v };
    sl.clamp(&v)
}

/// operands for function `op` on pair (sl -> dl)
#[allow(clippy::too_many_arguments)]
fn operands(prop: &str, op: u16, sl: L, dl: L, mode: usize, ia: Ing, ib: Ing, r1: u128, r2: u128) -> (u128, u128) {
    let (a, b) = operands_inner(prop, op, sl, dl, mode, ia, ib, r1, r2);
    // one case in 24: a named constant as the operand (for pow: base, exponent, or both)
    let h = (r1 ^ r2.rotate_left(61)).wrapping_mul(0x9E37_79B9_7F4A_7C15_F39C_C060_5CED_C835) >> 64;
    // (powi takes its constants inside, before the exponent is capped by the base's magnitude)
    if h % 24 != 0 || op == POWI || (prop == "C17" && matches!(op, SIN | COS | TAN) && (h >> 8) & 1 == 0) {
        return (a, b);
    }
    match op {
        POW => match (h >> 16) % 3 {
            0 => (named_constant_operand(sl, h >> 20), b),
            1 => (a, named_constant_operand(sl, h >> 20)),
            _ => (named_constant_operand(sl, h >> 20), named_constant_operand(sl, h >> 40)),
        },
        _ => (named_constant_operand(sl, h >> 20), b),
    }
}

#[allow(clippy::too_many_arguments)]
fn operands_inner(prop: &str, op: u16, sl: L, dl: L, mode: usize, ia: Ing, ib: Ing, r1: u128, r2: u128) -> (u128, u128) {
    let one = 1u128 << sl.f;
    let small = |r: u128| -> i64 { (r % 9) as i64 - 4 };
    let wrap_add = |base: u128, d: i64| -> u128 { sl.wrap(&sl.val(base).add_i64(d)) };
    match op {
        SQRT | LOG2 | LN => {
            let positive = (r2 >> 100) % 16 != 0; // occasionally negative / zero for the domain rules
            let a = match mode {
                0 => pattern(sl, ia),
                1 | 2 => log_uniform(sl, r1, r2, positive),
                3 => {
                    // powers of two +- few ulp
                    let top = if sl.signed { sl.w - 1 } else { sl.w };
                    wrap_add(1u128 << (r2 % top as u128) as u32, small(r1))
                }
                4 if (r1 >> 8) & 3 != 0 => wrap_add(one, small(r1) * if (r1 >> 10) & 1 == 1 { 1 } else { 1 << ((r1 >> 11) % 20) }),
                4 => {
                    // 2^j (1 +- d) with the distance d from a power of two log-uniform over the whole fraction:
                    // d = m 2^t ulp, m a random 16-bit odd number, t anywhere below the fraction width
                    let m = ((r1 >> 16) & 0xffff | 1) as u128;
                    let t = if sl.f > 17 { ((r1 >> 32) % (sl.f as u128 - 16)) as u32 } else { 0 };
                    let d = Big::from_u128(m).shl(t);
                    let base = Big::from_u128(one);
                    let x = if (r1 >> 50) & 1 == 1 { base.sub(&d) } else { base.add(&d) };
                    // scale by a power of two that keeps every bit (right shifts only by the trailing zeros)
                    let top = if sl.signed { sl.w - 1 } else { sl.w };
                    let room_up = top.saturating_sub(sl.f + 2);
                    let up = if room_up > 0 { ((r2 >> 8) % (room_up as u128 + 1)) as u32 } else { 0 };
                    let x = match (r2 >> 4) % 3 {
                        0 => x,
                        1 => x.shl(up),
                        _ => x.shr_floor(t.min(((r2 >> 8) % (sl.f as u128 + 1)) as u32)),
                    };
                    sl.wrap(&x)
                }
                5 => {
                    // perfect squares +- 1 ulp: y^2 with y of at most half the width
                    let yb = 1 + (r2 % ((sl.w - 1) as u128 / 2)) as u32;
                    let y = Big::from_u128(r1 & ((1u128 << yb) - 1));
                    let sq = y.mul(&y);
                    let x = if (r2 >> 32) & 1 == 0 { sq.shr_floor(sl.f.min(2 * yb)) } else { sq };
                    if (r2 >> 33) & 3 == 0 && sl.f >= 2 {
                        // (k/2)^2 -+ k ulp: X 2^f + 1 is a perfect square there, so the integer Newton iteration
                        // stops decreasing one step early / ends in a two-cycle
                        let k = 1 + (r1 >> 70) % (1u128 << (1 + (r2 >> 36) % 12));
                        let kb = Big::from_u128(k);
                        let x = kb.mul(&kb).shl(sl.f - 2);
                        let x = match (r2 >> 50) % 4 {
                            0 => x.add(&kb),
                            1 => x.sub(&kb),
                            2 => x.add_i64(1),
                            _ => x.add_i64(-1),
                        };
                        sl.wrap(&x)
                    } else {
                        sl.wrap(&x.add_i64(small(r1 >> 64).clamp(-1, 1)))
                    }
                }
                8 | 9 if (r2 >> 120) & 3 == 0 && sl == dl && sl.f >= 8 => {
                    // exact backward orbit of the refinement map (deepest levels preferred), times a power of two
                    let levels = log2_orbit_levels(sl.f);
                    let n = levels.len();
                    let li = if (r1 >> 100) & 1 == 0 { n - 1 - ((r1 >> 101) as usize % n.min(3)) } else { (r1 >> 101) as usize % n };
                    let node = &levels[li][(r1 >> 64) as usize % levels[li].len()];
                    let top = if sl.signed { sl.w - 1 } else { sl.w };
                    let room = top.saturating_sub(sl.f + 1);
                    let j = if room > 0 { ((r2 >> 8) % (room as u128 + 1)) as u32 } else { 0 };
                    sl.wrap(&node.shl(j))
                }
                8 | 9 => {
                    // branch boundaries of the bit-by-bit logarithm: x = 2^(k + j/2^m), where a repeated squaring
                    // lands exactly on (or within an ulp of) a power of two
                    let m = 1 + ((r2 >> 8) % 6) as u32;
                    let j = 1 + 2 * ((r2 >> 16) % (1u128 << (m - 1))) as i64; // odd numerator
                    let top = if sl.signed { sl.w - 1 } else { sl.w };
                    let k = ((r2 >> 32) % top as u128) as i64 - sl.f as i64;
                    let e = mp::ln2().mul(&Big::from_i64(j)).shr_floor(m).add(&mp::ln2().mul(&Big::from_i64(k)));
                    let v = mp::exp(&e);
                    wrap_add(mp_to_raw(sl, &v), (r1 % 5) as i64 - 1)
                }
                6 => {
                    // smallest invertible values: around 2^(2f)/max_D expressed in S
                    let t = Big::pow2(2 * dl.f).div_trunc(&dl.hi()).shr_floor(dl.f - sl.f);
                    sl.wrap(&t.add_i64(small(r1)))
                }
                7 if (r1 >> 20) & 1 == 1 => {
                    // simple algebraic constants (square roots of small rationals) -+ a few ulps, times a power of four
                    const RATS: [(u64, u64); 12] = [(2, 1), (3, 1), (4, 3), (3, 4), (1, 2), (5, 1), (1, 3), (5, 4), (2, 3), (3, 2), (8, 1), (1, 8)];
                    let (p, q) = RATS[((r1 >> 24) % 12) as usize];
                    // floor(sqrt(p/q) 2^f) = isqrt(p 2^(2f) / q)
                    let v = isqrt(&Big::from_u64(p).shl(2 * sl.f).div_trunc(&Big::from_u64(q)));
                    let j = ((r1 >> 32) % 5) as u32;
                    let v = if (r1 >> 40) & 1 == 1 { v.shl(2 * j) } else { v.shr_floor(2 * j) };
                    sl.wrap(&v.add_i64(small(r2)))
                }
                _ => {
                    let t = [sl.raw_max(), sl.raw_max() - 1, sl.raw_max() / 2, 1, 2, 3, one, one * 2, one * 4 & sl.mask(), sl.raw_min(), 0][(r1 % 11) as usize];
                    t & sl.mask()
                }
            };
            // sqrt and log2 work on the reciprocal of operands below one: aim the same special values at that
            // working operand — x with floor(2^(2F) / x) = the special value (exists for some layouts only)
            let a = if (r2 >> 110) & 3 == 0 && dl.f >= sl.f {
                let up = dl.f - sl.f;
                let ad = sl.val(a).shl(up);
                if ad > Big::pow2(dl.f) {
                    let xd = Big::pow2(2 * dl.f).div_trunc(&ad).add_i64(((r2 >> 112) & 1) as i64);
                    let xs = xd.shr_floor(up);
                    if xs.is_pos() && sl.fits(&xs) {
                        sl.wrap(&xs)
                    } else {
                        a
                    }
                } else {
                    a
                }
            } else {
                a
            };
            (a, 0)
        }
        EXP => {
            // threshold: ln(max_D) ~ (int_bits - 1) ln 2
            let thr = mp::ln2().mul(&Big::from_u64(dl.int_bits() as u64));
            let a = match mode {
                0 => pattern(sl, ia),
                1 | 2 | 3 => {
                    // uniform in [-thr, thr] (in S's grid)
                    let span = mp_to_raw(sl, &thr).max(1);
                    let v = r1 % (span + span / 8 + 1);
                    if (r2 >> 3) & 1 == 1 && sl.signed {
                        v.wrapping_neg() & sl.mask()
                    } else {
                        v
                    }
                }
                4 => {
                    // uniform in e^x: x = ln(u) for u log-uniform over D's positive range
                    let k = (r2 % (dl.w as u128 - 1)) as u32;
                    let u = Big::from_u128((1u128 << k) | (r1 & ((1u128 << k) - 1)));
                    mp_to_raw(sl, &mp::ln_of(&u, -(dl.f as i64)))
                }
                5 => wrap_add(mp_to_raw(sl, &thr), small(r1) * (1 << ((r1 >> 8) % 24))),
                6 => log_uniform(sl, r1, r2, false),
                _ => [0, one, one.wrapping_neg() & sl.mask(), 1, sl.mask(), sl.raw_max(), sl.raw_min(), one * 2 & sl.mask(), one / 2, one + 1, one - 1][(r1 % 11) as usize],
            };
            (a, 0)
        }
        POW => {
            let base = match mode % 4 {
                0 => pattern(sl, ia),
                1 | 2 => log_uniform(sl, r1, r2, (r2 >> 90) % 8 != 0),
                _ => [0, one, one * 2 & sl.mask(), one / 2, one + 1, one - 1, one * 10 & sl.mask(), sl.raw_max(), 1, one.wrapping_neg() & sl.mask(), one * 3 & sl.mask()][(r1 % 11) as usize],
            };
            let bv = sl.val(base);
            let expo = match if mode >= 40 { 4 } else { (mode / 4) % 4 } {
                4 if sl == dl && bv.is_pos() => {
                    // the intermediate product ln(x) * y at the ends of the type: y = T / L -+ ulps with L the
                    // library's own ln(x) (a high-precision ln misses the exact end by many ulps of the product)
                    let lc = Case { op: LN, lay: sl.idx() as u16, lay2: pair_of_same(sl), a: base, ..Case::default() };
                    let lraw = exec(&lc, SOFT_LIMIT).iter().find(|(n, _)| *n == "result").and_then(|(_, o)| if let Out::V(v) = o { Some(*v) } else { None });
                    match lraw.map(|v| dl.val(v)) {
                        Some(lv) if !lv.is_zero() => {
                            let t = if (r2 >> 60) & 1 == 0 { dl.lo() } else { dl.hi() };
                            let q = t.shl(dl.f).div_trunc(&lv).add_i64(((r1 >> 50) % 5) as i64 - 2);
                            sl.wrap(&q)
                        }
                        _ => pattern(sl, ib),
                    }
                }
                0 | 4 => pattern(sl, ib),
                1 if bv.is_pos() && base != one => {
                    // uniform in +-(threshold / |ln base|)
                    let thr = mp::ln2().mul(&Big::from_u64(dl.int_bits() as u64));
                    let lb = mp::ln_of(&bv, -(sl.f as i64)).abs();
                    let lim = mp::div(&thr, &lb.add_i64(1));
                    let span = mp_to_raw(sl, &lim).max(1);
                    let v = (r1 >> 17) % (span + span / 8 + 1);
                    if (r2 >> 5) & 1 == 1 {
                        v.wrapping_neg() & sl.mask()
                    } else {
                        v
                    }
                }
                2 => {
                    // small integers and halves
                    let n = ((r1 >> 20) % 17) as i64 - 8;
                    let h = if (r1 >> 30) & 1 == 1 { one as i128 / 2 } else { 0 };
                    sl.wrap(&Big::from_i128(n as i128 * one as i128 + h))
                }
                _ => [0, one, one.wrapping_neg() & sl.mask(), one / 2, one * 2 & sl.mask(), 1, sl.raw_max(), sl.raw_min()][((r1 >> 40) % 8) as usize],
            };
            (base, expo)
        }
        POWI => {
            let a = match mode % 4 {
                0 => pattern(sl, ia),
                1 => log_uniform(sl, r1, r2, false),
                2 => wrap_add(one, small(r1) << ((r1 >> 8) % (sl.f as u128).max(1)).min(60)),
                _ => [0, one, one.wrapping_neg() & sl.mask(), one * 2 & sl.mask(), one / 2, 1, sl.mask(), sl.raw_max(), sl.raw_min(), one + 1, one - 1][(r1 % 11) as usize],
            };
            let h = (r1 ^ r2.rotate_left(61)).wrapping_mul(0x9E37_79B9_7F4A_7C15_F39C_C060_5CED_C835) >> 64;
            let a = if h % 24 == 0 { named_constant_operand(sl, h >> 20) } else { a };
            // large exponents with a base SOLVED so that the power stays inside the type: |n| log-uniform up to 2^18
            // (one case in 40: the loop is linear in |n|), x = exp(t / n) for t uniform over +-ln(max), either sign of x.
            // Uniform bases give Err or 0 for such exponents, so nothing about the value would be judged.
            if h % 40 == 1 && prop != "C17" {
                let k = 4 + ((h >> 8) % 15) as u32;
                let n = (1i64 << k) + ((h >> 16) as i64 & ((1i64 << k) - 1));
                let thr = mp::ln2().mul(&Big::from_u64(dl.int_bits().saturating_sub(1).max(1) as u64));
                // t in (-thr, thr): |t| = thr * u / 2^32
                let u = Big::from_u128((h >> 24) & 0xffff_ffff);
                let t = thr.mul(&u).shr_floor(32);
                let t = if (r2 >> 3) & 1 == 1 { t.neg() } else { t };
                let x = mp::exp(&mp::div(&t, &mp::from_i64(n)));
                let xr = mp_to_raw(sl, &x);
                let xr = if sl.signed && (r2 >> 4) & 1 == 1 { xr.wrapping_neg() & sl.mask() } else { xr };
                let n = if (r2 >> 5) & 1 == 1 { -n } else { n };
                return (xr, (n as i32) as u32 as u128);
            }
            // exponents of any size on bases where the loop cannot leave early (|x| <= 1: tiny, sub-unit, next to +-1), run as a
            // bounded prefix (flag in bit 64 of the exponent word, moved to `Case::c` by the strategy): one case in 20
            if h % 20 == 2 && prop != "C17" {
                let a = match (h >> 8) % 6 {
                    0 => 1 + (r1 >> 100) % 4,                                              // a few ulp
                    1 => one >> (1 + (r1 >> 100) as u32 % sl.f.max(2).min(126)),            // 2^-k
                    2 => log_uniform(sl, r1, r2, true) % one.max(1),                        // anywhere below 1
                    3 => one - 1 - (r1 >> 100) % 1000,                                      // just below 1
                    4 => (one - (r1 >> 100) % 3).wrapping_neg() & sl.mask(),                // -1 and neighbours (signed)
                    _ => one / 4 + small(r1) as u128 % 3,                                   // around 1/4
                };
                let a = if !sl.signed && (h >> 8) % 6 == 4 { one - 1 } else { a & sl.mask() };
                let n: i64 = match (h >> 12) % 5 {
                    0 => i32::MAX as i64,
                    1 => i32::MIN as i64,
                    2 => (1i64 << (20 + (h >> 16) % 11)) + ((h >> 24) % 3) as i64 - 1,
                    3 => -((1i64 << (20 + (h >> 16) % 11)) + ((h >> 24) % 3) as i64 - 1),
                    _ => (h >> 16) as u32 as i32 as i64,
                };
                return (a, ((n as i32) as u32 as u128) | 1u128 << 64);
            }
            let av = sl.val(a).abs();
            // |x| <= 1 (roughly): the loop cannot leave early by overflow, so cap |n| to bound the work
            let near_unit = av <= Big::from_u128(one).add(&Big::from_u128(one >> 8));
            let cap: i64 = if near_unit { if prop == "C12" { 1 << 17 } else { 1 << 10 } } else { i32::MAX as i64 };
            let n: i64 = match (mode / 4) % 6 {
                0 => ((r2 >> 8) % 9) as i64 - 4,
                1 => ((r2 >> 8) % 65) as i64 - 32,
                2 => {
                    let k = (r2 >> 8) % 31;
                    let v = (1i64 << k) + ((r2 >> 16) % 3) as i64 - 1;
                    if (r2 >> 20) & 1 == 1 {
                        -v
                    } else {
                        v
                    }
                }
                3 => [i32::MIN as i64, i32::MAX as i64, i32::MIN as i64 + 1, -1, 0, 1, 2, -2][((r2 >> 8) % 8) as usize],
                4 => (r2 >> 8) as u32 as i32 as i64,
                _ => ((r2 >> 8) % 2001) as i64 - 1000,
            };
            // a handful of uncapped extreme exponents on the 32-bit sources (2^31 iterations each)
            let uncapped = prop == "C12" && (n == i32::MIN as i64 || n == i32::MAX as i64) && sl.w == 32 && (r2 >> 40) % 64 == 0;
            let n = if n.abs() > cap && !uncapped { n.signum() * (n.abs() % cap) } else { n };
            (a, (n as i32) as u32 as u128)
        }
        _ => {
            // SIN / COS / TAN: angles |x| <= 200 (tan: 100)
            let lim: i64 = if op == TAN { 100 } else { 200 };
            let cap = Big::from_i64(lim).shl(sl.f);
            let a = match mode {
                0 | 1 | 2 if prop != "C17" => {
                    let v = Big::from_u128(r1 % (cap.low_u128() + 1));
                    sl.wrap(&if (r2 >> 7) & 1 == 1 { v.neg() } else { v })
                }
                3 | 4 => {
                    // multiples of pi/4 +- few ulp
                    let k = (r1 % 255) as i64 - 127;
                    let k = if op == TAN { k % 127 } else { k };
                    let v = pi_mp().mul(&Big::from_i64(k)).shr_floor(2);
                    wrap_add(mp_to_raw(sl, &v), small(r2))
                }
                5 if (r1 >> 40) & 1 == 0 => sl.wrap(&Big::from_i64(small(r1) * (1 + (r1 >> 8) as i64 % 1000))), // tiny angles
                5 => {
                    // CORDIC convergence points: +-atan(1) +- atan(1/2) +- ... (n terms, each truncated to the type's
                    // resolution as the rotation does), where the residual angle becomes exactly zero; plus whole turns.
                    // Variants aim the same points at the inner calls: cos(x) rotates by x + pi/2, tan(x) by 2x and
                    // 2x + pi/2 (quarter turns and turns use the 23-bit constants the reduction works with).
                    let n = 1 + ((r1 >> 44) % 24) as u32;
                    let mut acc = Big::zero();
                    for i in 0..n {
                        let t = mp_to_raw(sl, &atan_pow2(i));
                        let t = Big::from_u128(t);
                        acc = if (r1 >> (50 + i)) & 1 == 1 { acc.sub(&t) } else { acc.add(&t) };
                    }
                    let c23 = |v: Mp| -> Big { v.shr_floor(P - 23).shl(sl.f - 23) };
                    let (h, t2) = (c23(pi_mp().shr_floor(1)), c23(pi_mp().shl(1)));
                    let turns = ((r2 >> 16) % 5) as i64 - 2;
                    let q = ((r2 >> 24) % 4) as i64;
                    let v = (r2 >> 28) % 6;
                    let mut num = acc.add(&t2.mul(&Big::from_i64(turns)));
                    if v >= 2 {
                        num = num.add(&h.mul(&Big::from_i64(q)));
                    }
                    if v == 1 || v == 3 || v == 5 {
                        num = num.sub(&h);
                    }
                    let x = if v >= 2 && v <= 3 || v == 5 { num.shr_floor(1) } else { num };
                    let x = if v == 0 { x.add_i64(small(r2) / 2) } else { x };
                    if x.abs() <= cap { sl.wrap(&x) } else { sl.wrap(&acc) }
                }
                6 => wrap_add(sl.wrap(&cap), -(r1 as i64 & 0xff)),
                7 if prop == "C17" && (r1 >> 3) & 1 == 1 => {
                    // boundaries of the argument reduction at any magnitude: m turns + q quarter turns (23-bit
                    // constants) +- a distance log-uniform between one ulp and 2^-20
                    let c23 = |v: Mp| -> Big { v.shr_floor(P - 23).shl(sl.f - 23) };
                    let (h, t2) = (c23(pi_mp().shr_floor(1)), c23(pi_mp().shl(1)));
                    let mmax = sl.hi().div_trunc(&t2);
                    let m = if (r1 >> 4) & 1 == 1 { mmax.add_i64(-(((r1 >> 8) % 3) as i64)) } else { Big::from_u128(r2 % (mmax.low_u128() + 1)) };
                    let q = ((r1 >> 16) % 5) as i64;
                    let span = sl.f.saturating_sub(20).max(1);
                    let e = Big::from_u128(((r1 >> 24) & 0xff | 1) as u128).shl(((r1 >> 40) % span as u128) as u32);
                    let e = if (r1 >> 60) & 1 == 1 { e.neg() } else { e };
                    let x = t2.mul(&m).add(&h.mul(&Big::from_i64(q))).add(&e);
                    let x = if (r1 >> 61) & 1 == 1 { x.neg() } else { x };
                    sl.clamp(&x)
                }
                _ if prop == "C17" => pattern(sl, ia),
                _ => {
                    let v = Big::from_u128(r1 % (cap.low_u128() + 1));
                    sl.wrap(&if (r2 >> 7) & 1 == 1 { v.neg() } else { v })
                }
            };
            (a, 0)
        }
    }
}

pub fn tol_ulps(dl: L, n: u64) -> Mp {
    // n units in the last place of D, as Mp, plus the oracle's own slack
    Big::from_u64(n).shl(P - dl.f).add(&Big::pow2(P - 280))
}
pub fn r_mp(dl: L, raw: u128) -> Mp {
    mp::from_scaled(&dl.val(raw), dl.f)
}

/// C15's relative bound for pow: 2^-18 + |y ln x| 2^-22 + 16 |y| 2^-F (as Mp)
pub fn pow_rel_bound(dl: L, y: &Mp, yl: &Mp) -> Mp {
    Big::pow2(P - 18).add(&yl.abs().shr_floor(22)).add(&y.abs().shl(4).shr_floor(dl.f))
}

/// trunc(2^(2F) / X) representable in D?  (the library inverts operands below one)
fn recip_fits(dl: L, xd: &Big) -> bool {
    !xd.is_zero() && dl.fits(&Big::pow2(2 * dl.f).div_trunc(xd))
}

impl Engine for Math {
    fn name(&self) -> &'static str {
        "math"
    }
    fn props(&self) -> Vec<&'static str> {
        vec!["C12", "C13", "C14", "C15", "C16", "C17"]
    }
    fn op_name(&self, _prop: &str, op: u16) -> String {
        // a history step packs (function, type pair): "log2@17"
        if op >= 16 {
            return format!("{}@{}", OP_NAMES[(op & 15) as usize % OP_NAMES.len()], op >> 4);
        }
        OP_NAMES[op as usize % OP_NAMES.len()].to_string()
    }
    fn op_from_name(&self, _prop: &str, s: &str) -> Option<u16> {
        if let Some((f, p)) = s.split_once('@') {
            let o = OP_NAMES.iter().position(|n| *n == f)? as u16;
            return Some(o | (p.parse::<u16>().ok()? << 4));
        }
        OP_NAMES.iter().position(|n| *n == s).map(|i| i as u16)
    }
    fn lay_is_layout(&self, _prop: &str) -> bool {
        true
    }
    fn strategy(&self, prop: &str, stratum: Option<u16>) -> BoxedStrategy<Case> {
        let funs = funs_of(prop);
        let prop = prop.to_string();
        (pick(funs.len()), pick(64), pick(48), ing(), ing(), any::<u128>(), any::<u128>(), any::<u32>())
            .prop_map(move |(fi, pi, mode, ia, ib, r1, r2, hist)| {
                let op = funs[fi];
                let ps = pairs_for(op);
                let pair = match stratum {
                    Some(s) if ps.contains(&s) => s,
                    _ => ps[pi % ps.len()],
                };
                let (sl, dl, _) = pair_info(pair as usize);
                let m = if op == POW || op == POWI { mode } else if matches!(op, SQRT | LOG2 | LN) { mode % 10 } else { mode % 8 };
                let (a, b) = operands(&prop, op, sl, dl, m, ia, ib, r1, r2);
                // powi is linear in |n|: no second call of it
                let prog = if op == POWI { Vec::new() } else { history(op, pair, a, b, hist) };
                let (b, cflag) = if op == POWI { (b & 0xffff_ffff, (b >> 64) & 1) } else { (b, 0) };
                Case { op, lay: sl.idx() as u16, lay2: pair, a, b, c: cflag, prog, ..Case::default() }
            })
            .boxed()
    }
    fn budget(&self, prop: &str, tier: Tier) -> Budget {
        let strata: Vec<u16> = (0..NPAIRS as u16).collect();
        match (prop, tier) {
            ("C12", Tier::Quick) => Budget { random: 400_000, per_stratum: 1_500, strata },
            ("C12", Tier::Thorough) => Budget { random: 40_000_000, per_stratum: 100_000, strata },
            ("C17", Tier::Quick) => Budget { random: 2_000_000, per_stratum: 10_000, strata },
            ("C17", Tier::Thorough) => Budget { random: 400_000_000, per_stratum: 1_000_000, strata },
            ("C16", Tier::Quick) => Budget { random: 2_000_000, per_stratum: 20_000, strata: pairs_for(SIN) },
            ("C16", Tier::Thorough) => Budget { random: 60_000_000, per_stratum: 600_000, strata: pairs_for(SIN) },
            ("C15", Tier::Quick) => Budget { random: 1_500_000, per_stratum: 4_000, strata },
            (_, Tier::Quick) => Budget { random: 1_500_000, per_stratum: 20_000, strata },
            ("C15", Tier::Thorough) => Budget { random: 150_000_000, per_stratum: 300_000, strata },
            (_, Tier::Thorough) => Budget { random: 150_000_000, per_stratum: 1_000_000, strata },
        }
    }
    fn exh_len(&self, prop: &str, tier: Tier) -> u64 {
        match (prop, tier) {
            // every I9F23 angle with |x| <= 200, x 3 functions (thorough); quick: every 1024th
            ("C16", Tier::Thorough) => 3 * (2 * (200u64 << 23) + 1),
            ("C16", Tier::Quick) => 3 * ((2 * (200u64 << 23)) / 1024 + 1),
            // concurrency hammer (see `hammer_case`)
            ("C13" | "C14" | "C15", Tier::Quick) => hammer_threads() * 2 * 6_000,
            ("C13" | "C14" | "C15", Tier::Thorough) => hammer_threads() * 2 * 200_000,
            _ => 0,
        }
    }
    fn exh_case(&self, prop: &str, tier: Tier, i: u64) -> Case {
        if prop != "C16" {
            return hammer_case(prop, i);
        }
        let stride: u64 = if tier == Tier::Thorough { 1 } else { 1024 };
        let per = (2 * (200u64 << 23)) / stride + 1;
        let op = [SIN, COS, TAN][(i / per) as usize];
        let k = (i % per) * stride;
        let x = k as i64 - (200i64 << 23);
        Case { op, lay: L::new(true, 32, 23).idx() as u16, lay2: 0, a: (x as i32) as u32 as u128, ..Case::default() }
    }
    fn exh_desc(&self, prop: &str, tier: Tier) -> String {
        match (prop, tier) {
            ("C16", Tier::Thorough) => "every I9F23 bit pattern with |x| <= 200 x {sin, cos, tan} (tan asserted for |x| <= 100, |tan x| <= 64)".into(),
            ("C16", Tier::Quick) => "every 1024th I9F23 bit pattern with |x| <= 200 x {sin, cos, tan}".into(),
            ("C13" | "C14" | "C15", _) => "concurrency hammer: every worker thread makes each of its own calls twice in a row (64 simple operands on common types, judged by the ordinary oracle) while the other workers make theirs: state shared between calls or threads shows as a wrong result".into(),
            _ => String::new(),
        }
    }
    fn rule(&self, prop: &str) -> String {
        let types = "270 source->destination pairs (S != D systematically: destinations whose integer-bit count is the source fraction-bit count + {0, 1, 2}, where the smallest source value's reciprocal straddles the destination maximum; I9F23 into 64- and 128-bit destinations, 64-bit sources into 128-bit destinations at fraction widths fs, fs+8, 2fs-9, 2fs-8, 2fs-4, 2fs, the widest and the middle; more unsigned sqrt / powi pairs), among them: every signed layout of the scope as a same-type pair (I9F23; the 33 64-bit layouts I41F23..I9F55; the 97 128-bit layouts I105F23..I9F119); I9F23->I32F32 I9F23->I64F64 I32F32->I64F64 I16F48->I40F88 I9F23->I9F55 I24F40->I40F88 I9F23->I33F31 I33F31->I42F86 I24F40->I28F100; unsigned sqrt U9F23 U32F32 U64F64 U96F32 U33F31 U42F86 U32F32->U64F64; U9F23->I32F32 U32F32->I64F64 U33F31->I42F86 (sqrt, powi)";
        match prop {
            "C12" => format!("cases = (function, type pair, operands) over {}; operands over the whole source type (classes, log-uniform magnitudes, powers of two, thresholds of the result range), pow exponents, powi exponents from small/2^k+-1/i32::MIN/i32::MAX/uniform (|n| capped at 2^17 where |x| <~ 1, where the loop cannot leave early, except a few uncapped i32::MIN/MAX exponents on 32-bit sources), trig angles |x| <= 200 (tan 100). Oracle: outcome is Ok/Err/return in both profiles (no unwind), domain rules (sqrt of negative, log of non-positive, negative base with fractional exponent => Err), true result (320-bit oracle, 2^-16 guard band) above the destination maximum => Err. Non-trivial: operand magnitude outside [2^-4, 24] or an Err outcome.", types),
            "C13" => format!("cases = sqrt over {}; x log-uniform, perfect squares +-1 ulp, near 1, smallest invertible, extremes. Oracle: exact integer bracket (r-4)^2 <= X*2^F <= (r+4)^2, r >= 0, sqrt(0)=0, sqrt(1)=1; Err only for x < 0 or unrepresentable reciprocal. Non-trivial: x not in {{0, 1}}.", types),
            "C14" => format!("cases = log2/ln over {}; x log-uniform, powers of two +-ulps, near 1, smallest invertible. Oracle: 320-bit log2/ln (atanh series; self-tested against embedded 60-digit constants and identities): |r - log2 x| <= 8 ulp, exact on powers of two, sign rule, |r - ln x| <= 2^-23 |ln x| + 8 ulp; Err only for x <= 0 or unrepresentable reciprocal. Non-trivial: x != 1.", types),
            "C15" => format!("cases = exp/pow/powi over {}; exp operands uniform in x and in e^x up to the overflow threshold; pow bases log-uniform with exponents within the threshold, small integers and halves; powi as in C12. Oracle: 320-bit exp and exp(y ln x); exact rational X^n (big integers) or 320-bit for powi; bounds as stated in the property; n < 0 metamorphic: powi(x,n) == 1.checked_div(powi(x,|n|)); conventions 0^y=0, x^0=1, x^1=x exact. Non-trivial: Ok result other than the conventions.", types),
            "C16" => "cases = sin/cos/tan over the 131 same-type signed pairs (every signed layout of the scope); angles uniform in |x| <= 200 (tan 100), multiples of pi/4 +- ulps, tiny angles, near the limit; I9F23 angles enumerated (every pattern in the thorough tier, every 1024th in quick). Oracle: f64 libm on the operand rounded to f64 (|x| <= 200 => argument error <= 2^-45, libm <= 1 ulp) with 2^-44 (times 1+t^2 for tan) added to every bound; targeted search: hill climbing on error/bound from the best-scoring generated angles: |sin - s|, |cos - c| <= 2^-16, range [-1-2^-16, 1+2^-16], |tan - t| <= 2^-14 (1+t^2) where |t| <= 64 (2^-30 guard band, cases inside skipped). Non-trivial: |x| > 2 or within 2^-10 of a quadrant boundary.".into(),
            "C17" => format!("cases = every function except powi over {}, operands weighted to the largest and smallest magnitudes; oracle: hook loop counter with hard limit 4*width+64 (the marker panic is the violation, so an unbounded loop costs 4*width+65 iterations to detect); targeted search: hill climbing on the iteration count from the generated operands with the highest counts. Non-trivial: operand magnitude >= 2^8 or <= 2^-8.", types),
            _ => String::new(),
        }
    }
    fn assumptions(&self, prop: &str) -> Vec<String> {
        let mut v = vec!["source/destination pairs are a fixed list of 270 (compile-time type parameters): every signed layout of the scope as a same-type pair, S != D sampled systematically".to_string()];
        match prop {
            "C16" => v.push("f64 libm oracle with a 2^-44 margin (times 1 + tan^2 for tan) added to every bound".into()),
            "C17" | "C12" => v.push("loop iterations counted by the cfg(substrate_fixed_verif) hook in every loop body of src/transcendental.rs".into()),
            _ => v.push("320-bit fixed-point log/exp oracle of the harness (error < 2^-300, self-tested)".into()),
        }
        v
    }
    fn required_classes(&self, prop: &str, _tier: Tier) -> Vec<&'static str> {
        match prop {
            "C12" => vec!["err", "ok", "domain-error-expected", "result-does-not-fit", "powi-i32-min", "w128", "unsigned-source"],
            "C13" => vec!["perfect-square", "x<1", "x>2^32", "w128"],
            "C14" => vec!["power-of-two", "x<1", "near-one", "w128"],
            "C15" => vec!["exp", "pow", "powi", "powi-negative-n", "x>8", "w128"],
            "C16" => vec!["|x|>100", "near-quadrant-boundary", "tan-skipped-guard-band", "w128"],
            "C17" => vec!["magnitude>=2^8", "magnitude<=2^-8", "w128"],
            _ => vec![],
        }
    }
    fn echo(&self, _prop: &str, c: &Case) -> Option<Case> {
        if c.op == POWI {
            return None;
        }
        let (sl, _, _) = pair_info(c.lay2 as usize);
        let ps: Vec<u16> = pairs_for(c.op).into_iter().filter(|p| *p != c.lay2 && pair_info(*p as usize).0.w == sl.w).collect();
        if ps.is_empty() {
            return None;
        }
        let p2 = ps[(c.a as u64 ^ (c.b as u64).rotate_left(17)) as usize % ps.len()];
        let mut s = c.clone();
        s.lay2 = p2;
        s.lay = pair_info(p2 as usize).0.idx() as u16;
        s.prog.clear();
        Some(s)
    }
    fn eval(&self, prop: &str, c: &Case, chk: bool, kf: &Kf) -> Eval {
        let mut ev = Eval::default();
        let pair = c.lay2 as usize;
        let (sl, dl, pk) = pair_info(pair);
        let op = c.op;
        if !accepts(pk, op) {
            ev.skipped = true;
            return ev;
        }
        let a = c.a & sl.mask();
        let xs = sl.val(a);
        let xd = to_d(sl, dl, a);
        let n = c.b as u32 as i32;
        // domain restrictions of the properties
        if matches!(op, SIN | COS | TAN) && prop != "C17" {
            let lim = Big::from_i64(if op == TAN { 100 } else { 200 }).shl(sl.f);
            if xs.abs() > lim {
                ev.skipped = true;
                return ev;
            }
        }
        if prop == "C17" && op == POWI {
            ev.skipped = true;
            return ev;
        }
        let limit = if prop == "C17" { c17_limit(dl) } else if op == POWI { powi_limit(c) } else { SOFT_LIMIT };
        let outs = exec(c, limit);
        let get = |name: &str| outs.iter().find(|(n, _)| *n == name).map(|x| x.1.clone()).unwrap_or(Out::Na);
        let res = get("result");
        let iters = match get("iters") {
            Out::V(v) => v as u64,
            _ => 0,
        };
        ev.note = format!("result={} iters={}", res.show(), iters);
        if !c.prog.is_empty() {
            ev.class("history(other calls made before the judged call)");
        }
        let mut fail = |ev: &mut Eval, label: &str, got: &Out, want: String| {
            if let Some(id) = kf::matches(kf, prop, c, label, got, chk) {
                if !ev.known.contains(&id) {
                    ev.known.push(id);
                }
                return;
            }
            ev.fails.push(Fail { label: label.to_string(), got: got.show(), want });
        };
        // common classes
        if dl.w == 128 {
            ev.class("w128");
        }
        if !sl.signed {
            ev.class("unsigned-source");
        }
        let mag_bits = xs.abs().bits() as i64 - sl.f as i64; // ~log2|x| + 1
        let hit_limit = matches!(&res, Out::P(m) if m.contains(LIMIT_MARKER));

        if prop == "C17" {
            if mag_bits >= 9 {
                ev.class("magnitude>=2^8");
            }
            if mag_bits <= -8 && !xs.is_zero() {
                ev.class("magnitude<=2^-8");
            }
            ev.nontrivial = mag_bits >= 9 || (mag_bits <= -8 && !xs.is_zero());
            // targeted search climbs on the iteration count itself
            ev.score = iters as f64 / c17_limit(dl) as f64;
            if hit_limit || iters > c17_limit(dl) {
                fail(&mut ev, "iters", &Out::V(iters as u128), format!("at most 4*{}+64 = {} loop iterations", dl.w, c17_limit(dl)));
            }
            ev.class(OP_NAMES[op as usize]);
            return ev;
        }
        if op == TAN && prop != "C17" {
            // tan is only specified where the true tangent does not exceed 64 in magnitude
            let x = sl.val(a).to_f64_approx() / 2f64.powi(sl.f as i32);
            let t = x.tan();
            if t.abs() > 64.0 * (1.0 - 2f64.powi(-30)) {
                if t.abs() <= 64.0 * (1.0 + 2f64.powi(-30)) {
                    ev.class("tan-skipped-guard-band");
                }
                ev.class("tan-outside-domain(skipped)");
                ev.skipped = true;
                return ev;
            }
        }
        if op == POWI && c.c == 1 {
            ev.class(if hit_limit { "powi-huge-exponent(prefix of 2^20 iterations ran clean, rest not run)" } else { "powi-huge-exponent(ended within the prefix: judged)" });
        }
        if hit_limit {
            // a runaway loop is C17's finding; here the case is only counted
            ev.class("soft-work-limit-hit(not asserted here)");
            ev.skipped = true;
            return ev;
        }

        // ---------- C12: totality ----------
        if prop == "C12" {
            if res.is_panic() {
                fail(&mut ev, "result", &res, "Ok(_) or Err(_) (no panic)".into());
            }
            let is_err = matches!(res, Out::E(_));
            ev.class(if is_err { "err" } else { "ok" });
            let mut must_err = false;
            match op {
                SQRT => must_err = xs.is_neg(),
                LOG2 | LN => must_err = !xs.is_pos(),
                POW => {
                    let e = sl.val(c.b & sl.mask());
                    let frac_mask = if sl.f == 0 { 0 } else { (1u128 << sl.f) - 1 };
                    let non_integer = c.b & frac_mask != 0;
                    must_err = xs.is_neg() && non_integer && !e.is_zero();
                    if xs.is_pos() && !e.is_zero() && e != Big::pow2(sl.f) {
                        // "does not fit" is decided modulo the accuracy C15 grants pow: Err is demanded
                        // only when no value <= max could be within C15's bound of the true power
                        let y = mp::from_scaled(&e, sl.f);
                        let l = mp::ln_of(&xs, -(sl.f as i64));
                        let yl = mp::mul(&l, &y);
                        let rel = pow_rel_bound(dl, &y, &yl);
                        let ln_max = mp::ln_of(&dl.hi(), -(dl.f as i64));
                        if rel < mp::one().shr_floor(1) {
                            // truth * (1 - rel) > max  <=>  y ln x > ln max - ln(1 - rel); -ln(1-rel) <= 2 rel for rel <= 1/2
                            let thr = ln_max.add(&rel.shl(1)).add(&Big::pow2(P - 16));
                            if yl > thr {
                                must_err = true;
                                ev.class("result-does-not-fit");
                            }
                        }
                    }
                }
                EXP => {
                    let t = mp::from_scaled(&xs, sl.f);
                    let thr = mp::ln_of(&dl.hi(), -(dl.f as i64)).add(&Big::pow2(P - 16));
                    if t > thr {
                        must_err = true;
                        ev.class("result-does-not-fit");
                    }
                }
                POWI => {
                    if n == i32::MIN {
                        ev.class("powi-i32-min");
                    }
                    // |x| >= 2 and n large: x^n cannot fit
                    if n > dl.w as i32 && xs.abs() >= Big::pow2(sl.f + 1) {
                        must_err = true;
                        ev.class("result-does-not-fit");
                    }
                }
                _ => {}
            }
            if must_err {
                ev.class("domain-error-expected");
                if !is_err && !res.is_panic() {
                    fail(&mut ev, "result", &res, "Err(_) (undefined request or result does not fit)".into());
                }
            }
            ev.nontrivial = is_err || mag_bits > 5 || mag_bits < -4;
            ev.class(OP_NAMES[op as usize]);
            return ev;
        }

        // ---------- accuracy properties ----------
        let rv = match &res {
            Out::V(v) => Some(*v),
            _ => None,
        };
        match op {
            SQRT => {
                ev.nontrivial = !xs.is_zero() && xd != Big::pow2(dl.f);
                if mag_bits > 33 {
                    ev.class("x>2^32");
                }
                if xs.is_pos() && mag_bits <= 0 {
                    ev.class("x<1");
                }
                match rv {
                    Some(r) => {
                        let rr = dl.val(r);
                        let nn = xd.shl(dl.f); // X * 2^F
                        let four = Big::from_i64(4);
                        let lo_ok = rr <= four || (&rr - &four).pow(2) <= nn;
                        let hi_ok = nn <= (&rr + &four).pow(2);
                        let exact_ok = if xs.is_zero() { rr.is_zero() } else if xd == Big::pow2(dl.f) { rr == Big::pow2(dl.f) } else { true };
                        if rr.is_pos() {
                            // |r - sqrt N| ~ |r^2 - N| / 2r, in units of the 4 ulp allowed
                            ev.score = (&rr.mul(&rr) - &nn).abs().to_f64_approx() / (2.0 * rr.to_f64_approx()) / 4.0;
                        }
                        if xs.is_neg() || rr.is_neg() || !lo_ok || !hi_ok || !exact_ok {
                            fail(&mut ev, "result", &res, format!("Ok(r) with |r - sqrt(x)| <= 4 ulp (r ~ {:.6e} for x ~ {:.6e})", (sl.approx(a)).max(0.0).sqrt(), sl.approx(a)));
                        }
                        // perfect square?
                        let s = isqrt(&nn);
                        if s.mul(&s) == nn && !xs.is_zero() {
                            ev.class("perfect-square");
                        }
                    }
                    None => {
                        let allowed = xs.is_neg() || (xs.is_pos() && xd < Big::pow2(dl.f) && !recip_fits(dl, &xd));
                        if !allowed {
                            fail(&mut ev, "result", &res, "Ok(_): Err is allowed only for x < 0 or an unrepresentable reciprocal".into());
                        }
                    }
                }
            }
            LOG2 | LN => {
                ev.nontrivial = xs.is_pos() && xd != Big::pow2(dl.f);
                if xs.is_pos() && xd < Big::pow2(dl.f) {
                    ev.class("x<1");
                }
                if xs.is_pos() && (&xd - &Big::pow2(dl.f)).abs() < Big::pow2(dl.f.saturating_sub(10)) {
                    ev.class("near-one");
                }
                let pow2 = xs.is_pos() && xs.bits() - 1 == xs.mag_trailing_zeros();
                if pow2 {
                    ev.class("power-of-two");
                }
                match rv {
                    Some(r) if xs.is_pos() => {
                        let got = r_mp(dl, r);
                        let rr = dl.val(r);
                        let (truth, tol) = if op == LOG2 {
                            (mp::log2_of(&xs, -(sl.f as i64)), tol_ulps(dl, 8))
                        } else {
                            let t = mp::ln_of(&xs, -(sl.f as i64));
                            let tol = tol_ulps(dl, 8).add(&t.abs().shr_floor(23));
                            (t, tol)
                        };
                        let one = Big::pow2(dl.f);
                        let sign_ok = if op == LOG2 { (xd > one || !rr.is_pos()) && (xd < one || !rr.is_neg()) } else { true };
                        let exact_ok = if op == LOG2 && pow2 { rr == Big::from_i64(xs.bits() as i64 - 1 - sl.f as i64).shl(dl.f) } else { true };
                        ev.score = mp::to_f64(&got.sub(&truth).abs()) / mp::to_f64(&tol);
                        if !mp::within(&got, &truth, &tol) || !sign_ok || !exact_ok {
                            fail(&mut ev, "result", &res, format!("{} = {:.12e} within the stated bound{} (got {:.12e})", OP_NAMES[op as usize], mp::to_f64(&truth), if pow2 && op == LOG2 { ", exact on powers of two" } else { "" }, mp::to_f64(&got)));
                        }
                    }
                    Some(_) => fail(&mut ev, "result", &res, "Err(_) for x <= 0".into()),
                    None => {
                        let allowed = !xs.is_pos() || (xd < Big::pow2(dl.f) && !recip_fits(dl, &xd));
                        if !allowed && !res.is_panic() {
                            fail(&mut ev, "result", &res, "Ok(_): Err is allowed only for x <= 0 or an unrepresentable reciprocal".into());
                        }
                    }
                }
            }
            EXP => {
                ev.class("exp");
                if mag_bits > 4 {
                    ev.class("x>8");
                }
                if let Some(r) = rv {
                    let x = mp::from_scaled(&xs, sl.f);
                    let got = r_mp(dl, r);
                    ev.nontrivial = !xs.is_zero();
                    if x > mp::from_i64(4096) {
                        // e^x is beyond every type of the scope by thousands of binary orders: no Ok is within 2^-20 of it
                        fail(&mut ev, "result", &res, format!("Err: e^x for x = {:.6e} is not representable (got {:.12e})", mp::to_f64(&x), mp::to_f64(&got)));
                        ev.class(OP_NAMES[op as usize]);
                        return ev;
                    }
                    let truth = mp::exp(&x);
                    let tol = tol_ulps(dl, 64).add(&truth.shr_floor(20));
                    ev.score = mp::to_f64(&got.sub(&truth).abs()) / mp::to_f64(&tol);
                    if !mp::within(&got, &truth, &tol) {
                        fail(&mut ev, "result", &res, format!("e^x = {:.12e} within 2^-20 e^x + 64 ulp (got {:.12e})", mp::to_f64(&truth), mp::to_f64(&got)));
                    }
                }
            }
            POW => {
                ev.class("pow");
                let e_raw = c.b & sl.mask();
                let e = sl.val(e_raw);
                let one_s = Big::pow2(sl.f);
                if let Some(r) = rv {
                    let got = r_mp(dl, r);
                    let rr = dl.val(r);
                    if xs.is_zero() {
                        if !rr.is_zero() {
                            fail(&mut ev, "result", &res, "0^y = 0".into());
                        }
                    } else if e.is_zero() {
                        if rr != Big::pow2(dl.f) {
                            fail(&mut ev, "result", &res, "x^0 = 1".into());
                        }
                    } else if e == one_s {
                        if rr != xd {
                            fail(&mut ev, "result", &res, "x^1 = x".into());
                        }
                    } else if xs.is_pos() {
                        let y = mp::from_scaled(&e, sl.f);
                        let l = mp::ln_of(&xs, -(sl.f as i64));
                        let yl = mp::mul(&y, &l);
                        // relative 2^-18 + |y ln x| 2^-22 + 16 |y| 2^-F, plus 64 ulp
                        let rel = pow_rel_bound(dl, &y, &yl);
                        ev.nontrivial = true;
                        if mag_bits > 4 {
                            ev.class("x>8");
                        }
                        let far = mp::from_i64(4096); // e^4096 is beyond every type of the scope (max < 2^128 < e^89)
                        if yl > far {
                            // the true power is astronomically large (it is not formed: it would have |y ln x| / ln 2 bits).
                            // With rel >= 1 the stated bound reaches down to zero or below and admits every result of the type;
                            // with rel < 1 its lower end truth (1 - rel) >= truth 2^-320 is beyond the type, so no Ok is within it.
                            ev.class("pow-true-result-astronomical");
                            let got_ok = rel >= mp::one();
                            if !got_ok {
                                fail(&mut ev, "result", &res, format!("x^y = e^({:.6e}) within the propagated bound (got {:.12e})", mp::to_f64(&yl), mp::to_f64(&got)));
                            }
                        } else {
                            let truth = if yl < far.neg() { Big::zero() } else { mp::exp(&yl) };
                            let tol = mp::mul(&rel, &truth).add(&tol_ulps(dl, 64));
                            if rel < mp::one().shr_floor(2) {
                                // (scored only where the bound says something: with rel near 1 it admits almost anything)
                                ev.score = mp::to_f64(&got.sub(&truth).abs()) / mp::to_f64(&tol);
                            }
                            if !mp::within(&got, &truth, &tol) {
                                fail(&mut ev, "result", &res, format!("x^y = {:.12e} within the propagated bound (got {:.12e})", mp::to_f64(&truth), mp::to_f64(&got)));
                            }
                        }
                    }
                }
            }
            POWI => {
                ev.class("powi");
                if mag_bits > 4 {
                    ev.class("x>8");
                }
                if n < 0 {
                    ev.class("powi-negative-n");
                }
                let one_d = Big::pow2(dl.f);
                if xs.is_zero() {
                    if rv.map(|r| dl.val(r)) != Some(Big::zero()) {
                        fail(&mut ev, "result", &res, "0^n = 0".into());
                    }
                } else if n == 0 {
                    if rv.map(|r| dl.val(r)) != Some(one_d.clone()) {
                        fail(&mut ev, "result", &res, "x^0 = 1".into());
                    }
                } else if n == 1 {
                    if rv.map(|r| dl.val(r)) != Some(xd.clone()) {
                        fail(&mut ev, "result", &res, "x^1 = x".into());
                    }
                } else if n > 0 {
                    if let Some(r) = rv {
                        ev.nontrivial = true;
                        let rr = dl.val(r);
                        let nn = n as u32;
                        let exact_bits = (xd.bits() as u64) * nn as u64;
                        // bound: (n+1) * max(1,|x|)^(n-1) ulp
                        // (exact big-integer comparison while the numbers stay small; the 320-bit oracle otherwise)
                        if exact_bits < 40_000 && (dl.f as u64) * (nn as u64) < 80_000 {
                            // |rr * 2^(F(n-1)) - X^n| <= (n+1) * max(2^F, |X|)^(n-1)
                            let lhs = (&rr.shl(dl.f * (nn - 1)) - &xd.pow(nn)).abs();
                            let m = Big::max(&one_d, &xd.abs());
                            let rhs = m.pow(nn - 1).mul(&Big::from_u64(nn as u64 + 1));
                            if lhs > rhs {
                                fail(&mut ev, "result", &res, format!("x^{} within ({}+1) max(1,|x|)^({}-1) ulp of the exact power", n, n, n));
                            }
                        } else {
                            let l = mp::ln_of(&xd.abs(), -(dl.f as i64));
                            let nl = l.mul(&Big::from_u64(nn as u64));
                            if nl > mp::from_i64(4096) {
                                // |x|^n is astronomically large and is not formed. The stated tolerance is the true power times
                                // (n+1) / (|x| 2^F): it reaches the representable range only if that factor is about 1 or more
                                if Big::from_u64(nn as u64 + 1) < xd.abs() {
                                    fail(&mut ev, "result", &res, format!("Err: x^{} is not representable and the stated bound does not reach the type's range", n));
                                }
                                ev.class(OP_NAMES[op as usize]);
                                return ev;
                            }
                            let truth = mp::exp(&nl);
                            let truth = if xd.is_neg() && nn % 2 == 1 { truth.neg() } else { truth };
                            let ml = if l.is_pos() { l.mul(&Big::from_u64(nn as u64 - 1)) } else { Big::zero() };
                            let tol = mp::exp(&ml).mul(&Big::from_u64(nn as u64 + 1)).shr_floor(dl.f).add(&truth.abs().shr_floor(200)).add(&tol_ulps(dl, 0));
                            if !mp::within(&r_mp(dl, r), &truth, &tol) {
                                fail(&mut ev, "result", &res, format!("x^{} = {:.12e} within the stated bound (got {:.12e})", n, mp::to_f64(&truth), mp::to_f64(&r_mp(dl, r))));
                            }
                        }
                    }
                } else if n != i32::MIN {
                    // metamorphic: powi(x, n) == 1.checked_div(powi(x, |n|))
                    let pos = get("result_abs_n");
                    let want = match &pos {
                        Out::V(v) => {
                            let vv = dl.val(*v);
                            if vv.is_zero() {
                                Out::E("Err".into())
                            } else {
                                let q = Big::pow2(2 * dl.f).div_trunc(&vv);
                                if dl.fits(&q) {
                                    Out::V(dl.wrap(&q))
                                } else {
                                    Out::E("Err".into())
                                }
                            }
                        }
                        Out::E(_) => Out::E("Err".into()),
                        other => other.clone(),
                    };
                    ev.nontrivial = matches!(want, Out::V(_));
                    if res != want && !pos.is_panic() {
                        fail(&mut ev, "result", &res, format!("{} (= 1.checked_div(powi(x, {})) with powi(x, {}) = {})", want.show(), -(n as i64), -(n as i64), pos.show()));
                    }
                } else if let Some(r) = rv {
                    // n = i32::MIN: |n| = 2^31 is not an i32, so there is no powi(x, |n|) to call; an Ok result must
                    // still be the truncated reciprocal of some p within (|n|+1) max(1,|x|)^(|n|-1) ulp of x^(2^31)
                    let l = mp::ln_of(&xd.abs(), -(dl.f as i64));
                    let big_n = Big::pow2(31);
                    let nl = l.mul(&big_n);
                    if nl.abs() < mp::from_i64(40) {
                        let truth = mp::exp(&nl); // even exponent: positive
                        let ml = if l.is_pos() { l.mul(&big_n.add_i64(-1)) } else { Big::zero() };
                        let b = mp::exp(&ml).mul(&big_n.add_i64(1)).shr_floor(dl.f);
                        let lo = truth.sub(&b);
                        if lo.is_pos() {
                            let hi = truth.add(&b);
                            let rmin = mp::div(&mp::one(), &hi).sub(&tol_ulps(dl, 2));
                            let rmax = mp::div(&mp::one(), &lo).add(&tol_ulps(dl, 2));
                            let got = r_mp(dl, r);
                            ev.nontrivial = true;
                            ev.class("powi-i32-min-value");
                            if got < rmin || got > rmax {
                                fail(&mut ev, "result", &res, format!("the reciprocal of x^(2^31) within its bound: [{:.9e}, {:.9e}] (got {:.9e})", mp::to_f64(&rmin), mp::to_f64(&rmax), mp::to_f64(&got)));
                            }
                        }
                    }
                }
            }
            _ => {
                // SIN / COS / TAN with the f64 oracle
                let x = sl.val(a).to_f64_approx() / 2f64.powi(sl.f as i32);
                // oracle error: the operand rounded to f64 is off by <= 2^-45 (|x| < 256), libm by <= 1 ulp, the result's
                // conversion by <= 2^-52 relative; sin/cos have slope <= 1, tan has slope 1 + t^2
                let margin = 2f64.powi(-44);
                let quad = x / std::f64::consts::FRAC_PI_2;
                let near_quad = (quad - quad.round()).abs() < 2f64.powi(-10);
                if near_quad {
                    ev.class("near-quadrant-boundary");
                }
                if x.abs() > 100.0 {
                    ev.class("|x|>100");
                }
                ev.nontrivial = x.abs() > 2.0 || near_quad;
                match rv {
                    Some(r) => {
                        let got = dl.val(r).to_f64_approx() / 2f64.powi(dl.f as i32);
                        match op {
                            SIN | COS => {
                                let t = if op == SIN { x.sin() } else { x.cos() };
                                let b = 2f64.powi(-16) + margin;
                                ev.score = ((got - t).abs() / b).max((got.abs() - 1.0) / b);
                                if (got - t).abs() > b || got.abs() > 1.0 + b {
                                    fail(&mut ev, "result", &res, format!("{}({}) = {} within 2^-16 (got {}, error {:.3e})", OP_NAMES[op as usize], x, t, got, (got - t).abs()));
                                }
                            }
                            _ => {
                                let t = x.tan();
                                let guard = 2f64.powi(-30);
                                if t.abs() > 64.0 * (1.0 + guard) {
                                    ev.skipped = true;
                                    return ev;
                                } else if t.abs() > 64.0 * (1.0 - guard) {
                                    ev.class("tan-skipped-guard-band");
                                    ev.skipped = true;
                                    return ev;
                                }
                                if t.abs() > 60.0 {
                                    ev.class("tan-skipped-guard-band");
                                }
                                let b = (2f64.powi(-14) + margin) * (1.0 + t * t);
                                ev.score = (got - t).abs() / b;
                                if (got - t).abs() > b {
                                    fail(&mut ev, "result", &res, format!("tan({}) = {} within 2^-14 (1 + tan^2) (got {}, error {:.3e} > {:.3e})", x, t, got, (got - t).abs(), b));
                                }
                            }
                        }
                    }
                    None => {
                        // a panic inside the stated domain
                        let t = x.tan();
                        if op != TAN || t.abs() <= 64.0 * (1.0 - 2f64.powi(-30)) {
                            fail(&mut ev, "result", &res, "a value (no panic) inside the stated angle domain".into());
                        } else {
                            ev.skipped = true;
                            return ev;
                        }
                    }
                }
            }
        }
        ev.class(OP_NAMES[op as usize]);
        ev
    }
    fn pair_gens(&self) -> Vec<&'static str> {
        vec!["C12", "C13", "C14", "C15", "C16"]
    }
    fn climb_budget(&self, prop: &str, tier: Tier) -> (u64, usize) {
        match (prop, tier) {
            ("C13", Tier::Quick) => (40_000, 48),
            ("C13", Tier::Thorough) => (2_000_000, 2_000),
            ("C14", Tier::Quick) => (15_000, 32),
            ("C14", Tier::Thorough) => (600_000, 1_000),
            ("C15", Tier::Quick) => (15_000, 32),
            ("C15", Tier::Thorough) => (600_000, 1_000),
            ("C17", Tier::Quick) => (60_000, 64),
            ("C17", Tier::Thorough) => (3_000_000, 3_000),
            ("C16", Tier::Quick) => (80_000, 96),
            ("C16", Tier::Thorough) => (4_000_000, 4_000),
            _ => (0, 0),
        }
    }
    fn climb_stride(&self, prop: &str) -> u32 {
        match prop {
            "C15" | "C14" => 2,
            _ => 1,
        }
    }
    fn climb_coords(&self, _prop: &str, c: &Case) -> usize {
        match c.op {
            POWI => 0,
            POW => 2,
            _ => 1,
        }
    }
    fn climb_move(&self, _prop: &str, c: &Case, coord: usize, up: bool, step: u128) -> Option<Case> {
        let (sl, _, _) = pair_info(c.lay2 as usize % NPAIRS);
        let cur = if coord == 0 { c.a } else { c.b } & sl.mask();
        if step > i128::MAX as u128 {
            return None;
        }
        let v = sl.val(cur);
        let d = Big::from_u128(step);
        let n = if up { v.add(&d) } else { v.sub(&d) };
        if !sl.fits(&n) {
            return None;
        }
        let mut out = c.clone();
        if coord == 0 {
            out.a = sl.wrap(&n);
        } else {
            out.b = sl.wrap(&n);
        }
        Some(out)
    }
    fn climb_bucket(&self, _prop: &str, c: &Case) -> u64 {
        // one bucket per function and group of pairs (16 groups), so that starting points spread over types
        (c.op as u64) << 8 | (c.lay2 as u64 % 16)
    }
    fn exec_raw(&self, _prop: &str, c: &Case) -> Outs {
        let (_, _, pk) = pair_info(c.lay2 as usize % NPAIRS);
        if !accepts(pk, c.op) {
            return Vec::new();
        }
        // the loop counter is not an output of the library: only results are compared
        exec(c, if c.op == POWI { powi_limit(c) } else { SOFT_LIMIT }).into_iter().filter(|(l, _)| *l != "iters").collect()
    }
    fn pair_class(&self, _prop: &str, c: &Case, _label: &str, _rel: &[(String, Out)]) -> vcore::pair::PairClass {
        use vcore::pair::PairClass;
        if matches!(c.op, SIN | COS | TAN) {
            // plain arithmetic inside, not Result: asserted inside C12's angle domain only
            let (sl, _, _) = pair_info(c.lay2 as usize % NPAIRS);
            let x = sl.val(c.a & sl.mask()).to_f64_approx() / 2f64.powi(sl.f as i32);
            let lim = if c.op == TAN { 100.0 } else { 200.0 };
            if x.abs() > lim || (c.op == TAN && x.tan().abs() > 64.0 * (1.0 - 2f64.powi(-30))) {
                return PairClass::Unclassified;
            }
        }
        PairClass::NeverPanic
    }
    fn selftest(&self) -> Result<u64, String> {
        if isqrt(&Big::from_u64(99)) != Big::from_u64(9) || isqrt(&Big::from_u64(100)) != Big::from_u64(10) || isqrt(&Big::pow2(200)) != Big::pow2(100) {
            return Err("math isqrt selftest".into());
        }
        for i in 0..12u32 {
            let a = mp::to_f64(&atan_pow2(i));
            if (a - (0.5f64).powi(i as i32).atan()).abs() > 1e-15 {
                return Err(format!("math atan_pow2({}) selftest: {}", i, a));
            }
        }
        // pi
        let p = mp::to_f64(&pi_mp());
        if (p - std::f64::consts::PI).abs() > 1e-15 {
            return Err("math pi selftest".into());
        }
        for i in 0..NPAIRS {
            let (s, d, _) = pair_info(i);
            if d.f < s.f || d.f < 23 {
                return Err("math pair table selftest".into());
            }
        }
        // named constants against f64
        let want = [std::f64::consts::E, std::f64::consts::PI, std::f64::consts::TAU, std::f64::consts::FRAC_PI_2, std::f64::consts::FRAC_PI_4, std::f64::consts::FRAC_PI_8,
            std::f64::consts::FRAC_PI_3, std::f64::consts::FRAC_PI_6, std::f64::consts::FRAC_1_PI, std::f64::consts::FRAC_2_PI, 0.5 / std::f64::consts::PI,
            std::f64::consts::LN_2, std::f64::consts::LN_10, std::f64::consts::LOG2_E, std::f64::consts::LOG2_10, std::f64::consts::LOG10_2, std::f64::consts::LOG10_E,
            std::f64::consts::SQRT_2, std::f64::consts::FRAC_1_SQRT_2, 3f64.sqrt(), 2.0 / 3f64.sqrt(), std::f64::consts::FRAC_2_SQRT_PI, (-1f64).exp(), 2f64.exp(), (1.0 + 5f64.sqrt()) / 2.0, std::f64::consts::E.exp()];
        let cs = named_constants();
        if cs.len() != want.len() {
            return Err("math named-constant table length".into());
        }
        for (c, w) in cs.iter().zip(want.iter()) {
            if (mp::to_f64(c) - w).abs() > 1e-14 * w.abs().max(1.0) {
                return Err(format!("math named constant selftest: {} vs {}", mp::to_f64(c), w));
            }
        }
        // the I9F23 rendering of e is the module's constant E
        if named_constant_operand(L::new(true, 32, 23), 0) != 22802600 {
            return Err(format!("math named constant e at 23 bits: {}", named_constant_operand(L::new(true, 32, 23), 0)));
        }
        Ok(NPAIRS as u64 + 4 + want.len() as u64)
    }
}

/// floor(sqrt(n)) by Newton on integers
fn isqrt(n: &Big) -> Big {
    if n.is_zero() {
        return Big::zero();
    }
    let mut x = Big::pow2((n.bits() + 1) / 2);
    loop {
        let y = (&x + &n.div_trunc(&x)).shr_floor(1);
        if y >= x {
            return x;
        }
        x = y;
    }
}

pub fn main_entry() {
    std::process::exit(vcore::run::main_with2(&Math, lay::is_chk(), lay::is_oc()));
}

/// Builds a well-formed case from raw fuzzer-chosen numbers (used by the coverage-guided target).
/// `powi` exponents are kept below 2^12 in magnitude so that one execution stays cheap.
pub fn fuzz_case(prop: &str, op_sel: u16, pair_sel: u16, a: u128, b: u128) -> Option<Case> {
    let funs = funs_of(prop);
    if funs.is_empty() {
        return None;
    }
    let op = funs[op_sel as usize % funs.len()];
    let pairs = pairs_for(op);
    let pair = pairs[pair_sel as usize % pairs.len()];
    let (sl, _, _) = pair_info(pair as usize);
    let mut c = Case { op, lay: sl.idx() as u16, lay2: pair, a: a & sl.mask(), b, ..Case::default() };
    match op {
        POW => c.b &= sl.mask(),
        POWI => {
            let n = (b as u32 as i32) % 4096;
            c.b = n as u32 as u128;
        }
        _ => c.b = 0,
    }
    Some(c)
}
