//! Known-finding predicates of the math engine. Only predicates named by an
//! `open` entry of /verif/known_findings.json are active.

use crate::{mp, r_mp, tol_ulps, Mp, P};
use math_ops::{pair_info, POW};
use vcore::run::Kf;
use vcore::{Big, Case, Out};

pub const POW_AMPLIFIED: &str = "pow_large_exponent_amplifies_ln_error";

/// pow(x, y) = exp(y * ln x) with ln computed in the destination's precision: the
/// C14-permitted error of ln (8 ulp + 2^-23 |ln x|), multiplied by |y|, is not small when
/// 8 |y| 2^-F > 1, and the first-order bound of C15 no longer covers e^delta - 1.
/// Signature: trigger region 8|y| 2^-F > 1 AND the result is what exp gives (within C15's exp
/// bound) for SOME logarithm L within C14's tolerance of ln x. Anything else is a violation.
pub fn matches(kf: &Kf, prop: &str, c: &Case, label: &str, got: &Out, _chk: bool) -> Option<&'static str> {
    if prop != "C15" || c.op != POW || label != "result" || !kf.is_active(POW_AMPLIFIED) {
        return None;
    }
    let (sl, dl, _) = pair_info(c.lay2 as usize);
    let xs = sl.val(c.a & sl.mask());
    let e = sl.val(c.b & sl.mask());
    if !xs.is_pos() {
        return None;
    }
    let r = match got {
        Out::V(v) => *v,
        _ => return None,
    };
    let y = mp::from_scaled(&e, sl.f);
    // region: 8 |y| 2^-F > 1
    if y.abs().shl(3).shr_floor(dl.f) <= mp::one() {
        return None;
    }
    let l = mp::ln_of(&xs, -(sl.f as i64));
    let ln_tol = tol_ulps(dl, 8).add(&l.abs().shr_floor(23)).add_i64(1).add(&Big::pow2(P - dl.f)); // + 1 ulp for the multiplication
    let (l_lo, l_hi) = (l.sub(&ln_tol), l.add(&ln_tol));
    // y * L over the interval
    let (p1, p2) = (mp::mul(&y, &l_lo), mp::mul(&y, &l_hi));
    let (t_lo, t_hi) = if p1 <= p2 { (p1, p2) } else { (p2, p1) };
    let got_mp = r_mp(dl, r);
    // exp is monotone; clamp the interval to what mp::exp can evaluate (|t| < 600)
    let cap = mp::from_i64(600);
    let lo_v: Mp = if t_lo < cap.neg() { Big::zero() } else if t_lo > cap { return None } else { mp::exp(&t_lo) };
    let hi_v: Option<Mp> = if t_hi > cap { None } else if t_hi < cap.neg() { Some(Big::zero()) } else { Some(mp::exp(&t_hi)) };
    let slack = |v: &Mp| -> Mp { v.shr_floor(20).add(&tol_ulps(dl, 64 + 2)) };
    let above_lo = got_mp >= lo_v.sub(&slack(&lo_v));
    let below_hi = match &hi_v {
        None => true,
        Some(h) => got_mp <= h.add(&slack(h)),
    };
    if above_lo && below_hi {
        Some(POW_AMPLIFIED)
    } else {
        None
    }
}
