fn main() {
    bin_math::main_entry()
}
