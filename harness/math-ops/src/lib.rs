//! Calls into `substrate_fixed::transcendental` for the fixed list of
//! source/destination type pairs, with the verification hook's loop counter
//! (reset before, read after, hard limit during the call).

use core::ops::{AddAssign, BitOrAssign, ShlAssign};
use lay::VF;
use substrate_fixed::traits::{Fixed, FixedSigned, LossyFrom, ToFixed};
use substrate_fixed::transcendental as tr;
use substrate_fixed::types::*;
use substrate_fixed::verif_hook;
use vcore::out::Outs;
use vcore::{step, Out, L};

pub const SQRT: u16 = 0;
pub const LOG2: u16 = 1;
pub const LN: u16 = 2;
pub const EXP: u16 = 3;
pub const POW: u16 = 4;
pub const POWI: u16 = 5;
pub const SIN: u16 = 6;
pub const COS: u16 = 7;
pub const TAN: u16 = 8;
pub const OP_NAMES: [&str; 9] = ["sqrt", "log2", "ln", "exp", "pow", "powi", "sin", "cos", "tan"];

/// kinds of pair: which functions its trait bounds accept
#[derive(Clone, Copy, PartialEq, Eq, Debug)]
pub enum PK {
    /// S == D signed: all nine functions
    Full,
    /// S != D both signed: sqrt log2 ln exp pow powi
    Cross,
    /// unsigned destination: sqrt only
    USqrt,
    /// unsigned source, signed destination: sqrt and powi
    UI,
}

pub const NPAIRS: usize = 24;

macro_rules! pairs {
    ($( $i:literal : $S:ident => $D:ident , $k:ident ; )*) => {
        pub fn pair_info(i: usize) -> (L, L, PK) {
            match i {
                $( $i => (<$S as VF>::LAY, <$D as VF>::LAY, PK::$k), )*
                _ => panic!("math pair index out of range"),
            }
        }
        fn dispatch(st: usize, i: usize, op: u16, a: u128, b: u128, outs: &mut Outs) {
            match i {
                $( $i => pairs!(@call $k, $S, $D, st, op, a, b, outs), )*
                _ => panic!("math pair index out of range"),
            }
        }
    };
    (@call Full, $S:ident, $D:ident, $st:ident, $op:ident, $a:ident, $b:ident, $outs:ident) => { run_full::<$D>($st, $op, $a, $b, $outs) };
    (@call Cross, $S:ident, $D:ident, $st:ident, $op:ident, $a:ident, $b:ident, $outs:ident) => { run_cross::<$S, $D>($st, $op, $a, $b, $outs) };
    (@call USqrt, $S:ident, $D:ident, $st:ident, $op:ident, $a:ident, $b:ident, $outs:ident) => { run_usqrt::<$S, $D>($st, $op, $a, $outs) };
    (@call UI, $S:ident, $D:ident, $st:ident, $op:ident, $a:ident, $b:ident, $outs:ident) => { run_ui::<$S, $D>($st, $op, $a, $b, $outs) };
}

pairs! {
    0: I9F23 => I9F23, Full;
    1: I9F55 => I9F55, Full;
    2: I16F48 => I16F48, Full;
    3: I24F40 => I24F40, Full;
    4: I32F32 => I32F32, Full;
    5: I41F23 => I41F23, Full;
    6: I9F119 => I9F119, Full;
    7: I40F88 => I40F88, Full;
    8: I64F64 => I64F64, Full;
    9: I96F32 => I96F32, Full;
    10: I105F23 => I105F23, Full;
    11: I9F23 => I32F32, Cross;
    12: I9F23 => I64F64, Cross;
    13: I32F32 => I64F64, Cross;
    14: I16F48 => I40F88, Cross;
    15: I9F23 => I9F55, Cross;
    16: I24F40 => I40F88, Cross;
    17: U9F23 => U9F23, USqrt;
    18: U32F32 => U32F32, USqrt;
    19: U64F64 => U64F64, USqrt;
    20: U96F32 => U96F32, USqrt;
    21: U32F32 => U64F64, USqrt;
    22: U9F23 => I32F32, UI;
    23: U32F32 => I64F64, UI;
}

pub fn accepts(pk: PK, op: u16) -> bool {
    match pk {
        PK::Full => true,
        PK::Cross => op <= POWI,
        PK::USqrt => op == SQRT,
        PK::UI => op == SQRT || op == POWI,
    }
}

fn r<D: VF, E>(x: Result<D, E>) -> Out {
    match x {
        Ok(v) => Out::V(v.raw()),
        Err(_) => Out::E("Err".into()),
    }
}

fn run_cross<S, D>(st: usize, op: u16, a: u128, b: u128, outs: &mut Outs)
where
    S: VF + FixedSigned + PartialOrd<I9F23>,
    D: VF + FixedSigned + PartialOrd<I9F23> + From<S> + From<I9F23>,
    <D as Fixed>::Bits: Copy + ToFixed + AddAssign + BitOrAssign + ShlAssign,
{
    let x = S::from_raw(a);
    match op {
        SQRT => step!(st, outs, 0, "result", r(tr::sqrt::<S, D>(x))),
        LOG2 => step!(st, outs, 0, "result", r(tr::log2::<S, D>(x))),
        LN => step!(st, outs, 0, "result", r(tr::ln::<S, D>(x))),
        EXP => step!(st, outs, 0, "result", r(tr::exp::<S, D>(x))),
        POW => step!(st, outs, 0, "result", r(tr::pow::<S, D>(x, S::from_raw(b)))),
        POWI => {
            let n = b as u32 as i32;
            step!(st, outs, 0, "result", r(tr::powi::<S, D>(x, n)));
            step!(st, outs, 1, "iters", Out::V(verif_hook::read() as u128));
            // for the n < 0 metamorphic relation: powi(x, |n|)
            step!(st, outs, 2, "result_abs_n", if n < 0 && n != i32::MIN { r(tr::powi::<S, D>(x, -n)) } else { Out::Na });
            return;
        }
        _ => {}
    }
    step!(st, outs, 1, "iters", Out::V(verif_hook::read() as u128));
}

fn run_full<T>(st: usize, op: u16, a: u128, b: u128, outs: &mut Outs)
where
    T: VF + FixedSigned + PartialOrd<I9F23> + From<I9F23> + LossyFrom<I9F23> + LossyFrom<I9F55> + LossyFrom<U0F128>,
    <T as Fixed>::Bits: Copy + ToFixed + AddAssign + BitOrAssign + ShlAssign,
{
    let x = T::from_raw(a);
    match op {
        SIN => step!(st, outs, 0, "result", Out::V(tr::sin(x).raw())),
        COS => step!(st, outs, 0, "result", Out::V(tr::cos(x).raw())),
        TAN => step!(st, outs, 0, "result", Out::V(tr::tan(x).raw())),
        _ => return run_cross::<T, T>(st, op, a, b, outs),
    }
    step!(st, outs, 1, "iters", Out::V(verif_hook::read() as u128));
}

fn run_usqrt<S, D>(st: usize, op: u16, a: u128, outs: &mut Outs)
where
    S: VF + PartialOrd<I9F23>,
    D: VF + PartialOrd<I9F23> + From<S>,
{
    if op == SQRT {
        step!(st, outs, 0, "result", r(tr::sqrt::<S, D>(S::from_raw(a))));
    }
    step!(st, outs, 1, "iters", Out::V(verif_hook::read() as u128));
}

fn run_ui<S, D>(st: usize, op: u16, a: u128, b: u128, outs: &mut Outs)
where
    S: VF + PartialOrd<I9F23>,
    D: VF + PartialOrd<I9F23> + From<S> + From<I9F23>,
    <D as Fixed>::Bits: Copy + ToFixed + AddAssign + BitOrAssign + ShlAssign,
{
    let x = S::from_raw(a);
    match op {
        SQRT => step!(st, outs, 0, "result", r(tr::sqrt::<S, D>(x))),
        POWI => {
            let n = b as u32 as i32;
            step!(st, outs, 0, "result", r(tr::powi::<S, D>(x, n)));
            step!(st, outs, 1, "iters", Out::V(verif_hook::read() as u128));
            step!(st, outs, 2, "result_abs_n", if n < 0 && n != i32::MIN { r(tr::powi::<S, D>(x, -n)) } else { Out::Na });
            return;
        }
        _ => {}
    }
    step!(st, outs, 1, "iters", Out::V(verif_hook::read() as u128));
}

/// Run one call with the loop counter reset and the given hard iteration limit.
pub fn run(st: usize, pair: usize, op: u16, a: u128, b: u128, limit: u64, outs: &mut Outs) {
    if st == 0 {
        verif_hook::reset();
    }
    verif_hook::set_limit(limit);
    dispatch(st, pair, op, a, b, outs);
    verif_hook::set_limit(u64::MAX);
}

pub const LIMIT_MARKER: &str = verif_hook::LIMIT_MARKER;
