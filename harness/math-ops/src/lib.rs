//! Calls into `substrate_fixed::transcendental` for the fixed list of
//! source/destination type pairs, with the verification hook's loop counter
//! (reset before, read after, hard limit during the call).

use core::ops::{AddAssign, BitOrAssign, ShlAssign};
use lay::VF;
use substrate_fixed::traits::{Fixed, FixedSigned, LossyFrom, ToFixed};
use substrate_fixed::transcendental as tr;
use substrate_fixed::types::*;
use substrate_fixed::verif_hook;
use vcore::out::Outs;
use vcore::{step, Out, L};

pub const SQRT: u16 = 0;
pub const LOG2: u16 = 1;
pub const LN: u16 = 2;
pub const EXP: u16 = 3;
pub const POW: u16 = 4;
pub const POWI: u16 = 5;
pub const SIN: u16 = 6;
pub const COS: u16 = 7;
pub const TAN: u16 = 8;
pub const OP_NAMES: [&str; 9] = ["sqrt", "log2", "ln", "exp", "pow", "powi", "sin", "cos", "tan"];

/// kinds of pair: which functions its trait bounds accept
#[derive(Clone, Copy, PartialEq, Eq, Debug)]
pub enum PK {
    /// S == D signed: all nine functions
    Full,
    /// S != D both signed: sqrt log2 ln exp pow powi
    Cross,
    /// unsigned destination: sqrt only
    USqrt,
    /// unsigned source, signed destination: sqrt and powi
    UI,
    /// a type OUTSIDE the properties' scope (fewer than 23 fraction bits): never judged, only called as part of the
    /// history before a judged call (sqrt log2 sin cos tan) — what it returns or whether it panics is not asserted
    Prime,
}

/// pairs including the history-only ones (indices NPAIRS..NALL)
pub const NALL: usize = 276;

pub const NPAIRS: usize = 270;

macro_rules! pairs {
    ($( $i:literal : $S:ident => $D:ident , $k:ident ; )*) => {
        pub fn pair_info(i: usize) -> (L, L, PK) {
            match i {
                $( $i => (<$S as VF>::LAY, <$D as VF>::LAY, PK::$k), )*
                _ => panic!("math pair index out of range"),
            }
        }
        fn dispatch(st: usize, i: usize, op: u16, a: u128, b: u128, outs: &mut Outs) {
            match i {
                $( $i => pairs!(@call $k, $S, $D, st, op, a, b, outs), )*
                _ => panic!("math pair index out of range"),
            }
        }
    };
    (@call Full, $S:ident, $D:ident, $st:ident, $op:ident, $a:ident, $b:ident, $outs:ident) => { run_full::<$D>($st, $op, $a, $b, $outs) };
    (@call Cross, $S:ident, $D:ident, $st:ident, $op:ident, $a:ident, $b:ident, $outs:ident) => { run_cross::<$S, $D>($st, $op, $a, $b, $outs) };
    (@call USqrt, $S:ident, $D:ident, $st:ident, $op:ident, $a:ident, $b:ident, $outs:ident) => { run_usqrt::<$S, $D>($st, $op, $a, $outs) };
    (@call UI, $S:ident, $D:ident, $st:ident, $op:ident, $a:ident, $b:ident, $outs:ident) => { run_ui::<$S, $D>($st, $op, $a, $b, $outs) };
    (@call Prime, $S:ident, $D:ident, $st:ident, $op:ident, $a:ident, $b:ident, $outs:ident) => { run_prime::<$D>($st, $op, $a, $outs) };
}

pairs! {
    0: I9F23 => I9F23, Full;
    1: I9F55 => I9F55, Full;
    2: I16F48 => I16F48, Full;
    3: I24F40 => I24F40, Full;
    4: I32F32 => I32F32, Full;
    5: I41F23 => I41F23, Full;
    6: I9F119 => I9F119, Full;
    7: I40F88 => I40F88, Full;
    8: I64F64 => I64F64, Full;
    9: I96F32 => I96F32, Full;
    10: I105F23 => I105F23, Full;
    11: I9F23 => I32F32, Cross;
    12: I9F23 => I64F64, Cross;
    13: I32F32 => I64F64, Cross;
    14: I16F48 => I40F88, Cross;
    15: I9F23 => I9F55, Cross;
    16: I24F40 => I40F88, Cross;
    17: U9F23 => U9F23, USqrt;
    18: U32F32 => U32F32, USqrt;
    19: U64F64 => U64F64, USqrt;
    20: U96F32 => U96F32, USqrt;
    21: U32F32 => U64F64, USqrt;
    22: U9F23 => I32F32, UI;
    23: U32F32 => I64F64, UI;
    // every other signed layout of the properties' scope (>= 9 integer bits, >= 23 fraction bits), same type
    24: I40F24 => I40F24, Full;
    25: I39F25 => I39F25, Full;
    26: I38F26 => I38F26, Full;
    27: I37F27 => I37F27, Full;
    28: I36F28 => I36F28, Full;
    29: I35F29 => I35F29, Full;
    30: I34F30 => I34F30, Full;
    31: I33F31 => I33F31, Full;
    32: I31F33 => I31F33, Full;
    33: I30F34 => I30F34, Full;
    34: I29F35 => I29F35, Full;
    35: I28F36 => I28F36, Full;
    36: I27F37 => I27F37, Full;
    37: I26F38 => I26F38, Full;
    38: I25F39 => I25F39, Full;
    39: I23F41 => I23F41, Full;
    40: I22F42 => I22F42, Full;
    41: I21F43 => I21F43, Full;
    42: I20F44 => I20F44, Full;
    43: I19F45 => I19F45, Full;
    44: I18F46 => I18F46, Full;
    45: I17F47 => I17F47, Full;
    46: I15F49 => I15F49, Full;
    47: I14F50 => I14F50, Full;
    48: I13F51 => I13F51, Full;
    49: I12F52 => I12F52, Full;
    50: I11F53 => I11F53, Full;
    51: I10F54 => I10F54, Full;
    52: I104F24 => I104F24, Full;
    53: I103F25 => I103F25, Full;
    54: I102F26 => I102F26, Full;
    55: I101F27 => I101F27, Full;
    56: I100F28 => I100F28, Full;
    57: I99F29 => I99F29, Full;
    58: I98F30 => I98F30, Full;
    59: I97F31 => I97F31, Full;
    60: I95F33 => I95F33, Full;
    61: I94F34 => I94F34, Full;
    62: I93F35 => I93F35, Full;
    63: I92F36 => I92F36, Full;
    64: I91F37 => I91F37, Full;
    65: I90F38 => I90F38, Full;
    66: I89F39 => I89F39, Full;
    67: I88F40 => I88F40, Full;
    68: I87F41 => I87F41, Full;
    69: I86F42 => I86F42, Full;
    70: I85F43 => I85F43, Full;
    71: I84F44 => I84F44, Full;
    72: I83F45 => I83F45, Full;
    73: I82F46 => I82F46, Full;
    74: I81F47 => I81F47, Full;
    75: I80F48 => I80F48, Full;
    76: I79F49 => I79F49, Full;
    77: I78F50 => I78F50, Full;
    78: I77F51 => I77F51, Full;
    79: I76F52 => I76F52, Full;
    80: I75F53 => I75F53, Full;
    81: I74F54 => I74F54, Full;
    82: I73F55 => I73F55, Full;
    83: I72F56 => I72F56, Full;
    84: I71F57 => I71F57, Full;
    85: I70F58 => I70F58, Full;
    86: I69F59 => I69F59, Full;
    87: I68F60 => I68F60, Full;
    88: I67F61 => I67F61, Full;
    89: I66F62 => I66F62, Full;
    90: I65F63 => I65F63, Full;
    91: I63F65 => I63F65, Full;
    92: I62F66 => I62F66, Full;
    93: I61F67 => I61F67, Full;
    94: I60F68 => I60F68, Full;
    95: I59F69 => I59F69, Full;
    96: I58F70 => I58F70, Full;
    97: I57F71 => I57F71, Full;
    98: I56F72 => I56F72, Full;
    99: I55F73 => I55F73, Full;
    100: I54F74 => I54F74, Full;
    101: I53F75 => I53F75, Full;
    102: I52F76 => I52F76, Full;
    103: I51F77 => I51F77, Full;
    104: I50F78 => I50F78, Full;
    105: I49F79 => I49F79, Full;
    106: I48F80 => I48F80, Full;
    107: I47F81 => I47F81, Full;
    108: I46F82 => I46F82, Full;
    109: I45F83 => I45F83, Full;
    110: I44F84 => I44F84, Full;
    111: I43F85 => I43F85, Full;
    112: I42F86 => I42F86, Full;
    113: I41F87 => I41F87, Full;
    114: I39F89 => I39F89, Full;
    115: I38F90 => I38F90, Full;
    116: I37F91 => I37F91, Full;
    117: I36F92 => I36F92, Full;
    118: I35F93 => I35F93, Full;
    119: I34F94 => I34F94, Full;
    120: I33F95 => I33F95, Full;
    121: I32F96 => I32F96, Full;
    122: I31F97 => I31F97, Full;
    123: I30F98 => I30F98, Full;
    124: I29F99 => I29F99, Full;
    125: I28F100 => I28F100, Full;
    126: I27F101 => I27F101, Full;
    127: I26F102 => I26F102, Full;
    128: I25F103 => I25F103, Full;
    129: I24F104 => I24F104, Full;
    130: I23F105 => I23F105, Full;
    131: I22F106 => I22F106, Full;
    132: I21F107 => I21F107, Full;
    133: I20F108 => I20F108, Full;
    134: I19F109 => I19F109, Full;
    135: I18F110 => I18F110, Full;
    136: I17F111 => I17F111, Full;
    137: I16F112 => I16F112, Full;
    138: I15F113 => I15F113, Full;
    139: I14F114 => I14F114, Full;
    140: I13F115 => I13F115, Full;
    141: I12F116 => I12F116, Full;
    142: I11F117 => I11F117, Full;
    143: I10F118 => I10F118, Full;
    144: I9F23 => I33F31, Cross;
    145: I33F31 => I42F86, Cross;
    146: I24F40 => I28F100, Cross;
    147: U33F31 => U33F31, USqrt;
    148: U42F86 => U42F86, USqrt;
    149: U33F31 => I42F86, UI;
    // source != destination, systematically: the 32-bit source into 64- and 128-bit destinations, and 64-bit sources into
    // 128-bit destinations at the fraction widths fs, fs+8, 2fs-9, 2fs-8, 2fs-4, 2fs, the widest, and the middle
    150: I9F23 => I41F23, Cross;
    151: I9F23 => I40F24, Cross;
    152: I9F23 => I36F28, Cross;
    153: I9F23 => I28F36, Cross;
    154: I9F23 => I24F40, Cross;
    155: I9F23 => I17F47, Cross;
    156: I9F23 => I16F48, Cross;
    157: I9F23 => I12F52, Cross;
    158: I9F23 => I105F23, Cross;
    159: I9F23 => I96F32, Cross;
    160: I9F23 => I90F38, Cross;
    161: I9F23 => I82F46, Cross;
    162: I9F23 => I41F87, Cross;
    163: I9F23 => I9F119, Cross;
    164: I41F23 => I105F23, Cross;
    165: I41F23 => I97F31, Cross;
    166: I41F23 => I91F37, Cross;
    167: I41F23 => I90F38, Cross;
    168: I41F23 => I86F42, Cross;
    169: I41F23 => I82F46, Cross;
    170: I41F23 => I73F55, Cross;
    171: I41F23 => I41F87, Cross;
    172: I40F24 => I104F24, Cross;
    173: I40F24 => I96F32, Cross;
    174: I40F24 => I89F39, Cross;
    175: I40F24 => I88F40, Cross;
    176: I40F24 => I84F44, Cross;
    177: I40F24 => I80F48, Cross;
    178: I40F24 => I72F56, Cross;
    179: I40F24 => I40F88, Cross;
    180: I36F28 => I100F28, Cross;
    181: I36F28 => I92F36, Cross;
    182: I36F28 => I81F47, Cross;
    183: I36F28 => I80F48, Cross;
    184: I36F28 => I76F52, Cross;
    185: I36F28 => I72F56, Cross;
    186: I36F28 => I68F60, Cross;
    187: I36F28 => I36F92, Cross;
    188: I32F32 => I96F32, Cross;
    189: I32F32 => I88F40, Cross;
    190: I32F32 => I73F55, Cross;
    191: I32F32 => I72F56, Cross;
    192: I32F32 => I68F60, Cross;
    193: I32F32 => I32F96, Cross;
    194: I28F36 => I92F36, Cross;
    195: I28F36 => I84F44, Cross;
    196: I28F36 => I65F63, Cross;
    197: I28F36 => I64F64, Cross;
    198: I28F36 => I60F68, Cross;
    199: I28F36 => I56F72, Cross;
    200: I28F36 => I28F100, Cross;
    201: I24F40 => I88F40, Cross;
    202: I24F40 => I80F48, Cross;
    203: I24F40 => I57F71, Cross;
    204: I24F40 => I56F72, Cross;
    205: I24F40 => I52F76, Cross;
    206: I24F40 => I48F80, Cross;
    207: I24F40 => I24F104, Cross;
    208: I20F44 => I84F44, Cross;
    209: I20F44 => I76F52, Cross;
    210: I20F44 => I52F76, Cross;
    211: I20F44 => I49F79, Cross;
    212: I20F44 => I48F80, Cross;
    213: I20F44 => I44F84, Cross;
    214: I20F44 => I40F88, Cross;
    215: I20F44 => I20F108, Cross;
    216: I16F48 => I80F48, Cross;
    217: I16F48 => I72F56, Cross;
    218: I16F48 => I48F80, Cross;
    219: I16F48 => I41F87, Cross;
    220: I16F48 => I36F92, Cross;
    221: I16F48 => I32F96, Cross;
    222: I16F48 => I16F112, Cross;
    223: I12F52 => I76F52, Cross;
    224: I12F52 => I68F60, Cross;
    225: I12F52 => I44F84, Cross;
    226: I12F52 => I33F95, Cross;
    227: I12F52 => I32F96, Cross;
    228: I12F52 => I28F100, Cross;
    229: I12F52 => I24F104, Cross;
    230: I12F52 => I12F116, Cross;
    231: I9F55 => I73F55, Cross;
    232: I9F55 => I65F63, Cross;
    233: I9F55 => I41F87, Cross;
    234: I9F55 => I27F101, Cross;
    235: I9F55 => I26F102, Cross;
    236: I9F55 => I22F106, Cross;
    237: I9F55 => I18F110, Cross;
    238: I9F55 => I9F119, Cross;
    239: U9F23 => U33F31, USqrt;
    240: U33F31 => U42F86, USqrt;
    241: U9F23 => U64F64, USqrt;
    242: U32F32 => U96F32, USqrt;
    243: U9F23 => I64F64, UI;
    244: U32F32 => I96F32, UI;
    245: U33F31 => I34F94, UI;
    // the smallest positive source value's reciprocal (2^S.frac) straddles the destination's maximum (2^(D.int-1)): D.int = S.frac + {0, 1, 2}
    246: I9F23 => I23F41, Cross;
    247: I9F23 => I23F105, Cross;
    248: I9F23 => I24F40, Cross;
    249: I9F23 => I24F104, Cross;
    250: I9F23 => I25F39, Cross;
    251: I9F23 => I25F103, Cross;
    252: I32F32 => I32F96, Cross;
    253: I32F32 => I33F95, Cross;
    254: I32F32 => I34F94, Cross;
    255: I31F33 => I33F95, Cross;
    256: I31F33 => I34F94, Cross;
    257: I31F33 => I35F93, Cross;
    258: I24F40 => I40F88, Cross;
    259: I24F40 => I41F87, Cross;
    260: I24F40 => I42F86, Cross;
    261: I23F41 => I41F87, Cross;
    262: I23F41 => I42F86, Cross;
    263: I23F41 => I43F85, Cross;
    264: I16F48 => I48F80, Cross;
    265: I16F48 => I49F79, Cross;
    266: I16F48 => I50F78, Cross;
    267: I9F55 => I55F73, Cross;
    268: I9F55 => I56F72, Cross;
    269: I9F55 => I57F71, Cross;
    270: I16F16 => I16F16, Prime;
    271: I24F8 => I24F8, Prime;
    272: I48F16 => I48F16, Prime;
    273: I12F20 => I12F20, Prime;
    274: I112F16 => I112F16, Prime;
    275: I10F6 => I10F6, Prime;
}

/// functions a history-only pair can be called with
pub fn primer_accepts(pk: PK, op: u16) -> bool {
    pk == PK::Prime && matches!(op, SQRT | LOG2 | SIN | COS | TAN)
}

pub fn accepts(pk: PK, op: u16) -> bool {
    match pk {
        PK::Full => true,
        PK::Cross => op <= POWI,
        PK::USqrt => op == SQRT,
        PK::UI => op == SQRT || op == POWI,
        PK::Prime => false,
    }
}

fn r<D: VF, E>(x: Result<D, E>) -> Out {
    match x {
        Ok(v) => Out::V(v.raw()),
        Err(_) => Out::E("Err".into()),
    }
}

fn run_cross<S, D>(st: usize, op: u16, a: u128, b: u128, outs: &mut Outs)
where
    S: VF + FixedSigned + PartialOrd<I9F23>,
    D: VF + FixedSigned + PartialOrd<I9F23> + From<S> + From<I9F23>,
    <D as Fixed>::Bits: Copy + ToFixed + AddAssign + BitOrAssign + ShlAssign,
{
    let x = S::from_raw(a);
    match op {
        SQRT => step!(st, outs, 0, "result", r(tr::sqrt::<S, D>(x))),
        LOG2 => step!(st, outs, 0, "result", r(tr::log2::<S, D>(x))),
        LN => step!(st, outs, 0, "result", r(tr::ln::<S, D>(x))),
        EXP => step!(st, outs, 0, "result", r(tr::exp::<S, D>(x))),
        POW => step!(st, outs, 0, "result", r(tr::pow::<S, D>(x, S::from_raw(b)))),
        POWI => {
            let n = b as u32 as i32;
            step!(st, outs, 0, "result", r(tr::powi::<S, D>(x, n)));
            step!(st, outs, 1, "iters", Out::V(verif_hook::read() as u128));
            // for the n < 0 metamorphic relation: powi(x, |n|)
            step!(st, outs, 2, "result_abs_n", if n < 0 && n != i32::MIN { r(tr::powi::<S, D>(x, -n)) } else { Out::Na });
            return;
        }
        _ => {}
    }
    step!(st, outs, 1, "iters", Out::V(verif_hook::read() as u128));
}

fn run_full<T>(st: usize, op: u16, a: u128, b: u128, outs: &mut Outs)
where
    T: VF + FixedSigned + PartialOrd<I9F23> + From<I9F23> + LossyFrom<I9F23> + LossyFrom<I9F55> + LossyFrom<U0F128>,
    <T as Fixed>::Bits: Copy + ToFixed + AddAssign + BitOrAssign + ShlAssign,
{
    let x = T::from_raw(a);
    match op {
        SIN => step!(st, outs, 0, "result", Out::V(tr::sin(x).raw())),
        COS => step!(st, outs, 0, "result", Out::V(tr::cos(x).raw())),
        TAN => step!(st, outs, 0, "result", Out::V(tr::tan(x).raw())),
        _ => return run_cross::<T, T>(st, op, a, b, outs),
    }
    step!(st, outs, 1, "iters", Out::V(verif_hook::read() as u128));
}

fn run_prime<T>(st: usize, op: u16, a: u128, outs: &mut Outs)
where
    T: VF + FixedSigned + PartialOrd<I9F23> + LossyFrom<I9F23> + LossyFrom<I9F55> + LossyFrom<U0F128>,
    <T as Fixed>::Bits: Copy + ToFixed + AddAssign + BitOrAssign + ShlAssign,
{
    let x = T::from_raw(a);
    match op {
        SIN => step!(st, outs, 0, "result", Out::V(tr::sin(x).raw())),
        COS => step!(st, outs, 0, "result", Out::V(tr::cos(x).raw())),
        TAN => step!(st, outs, 0, "result", Out::V(tr::tan(x).raw())),
        SQRT => step!(st, outs, 0, "result", r(tr::sqrt::<T, T>(x))),
        LOG2 => step!(st, outs, 0, "result", r(tr::log2::<T, T>(x))),
        _ => {}
    }
}

fn run_usqrt<S, D>(st: usize, op: u16, a: u128, outs: &mut Outs)
where
    S: VF + PartialOrd<I9F23>,
    D: VF + PartialOrd<I9F23> + From<S>,
{
    if op == SQRT {
        step!(st, outs, 0, "result", r(tr::sqrt::<S, D>(S::from_raw(a))));
    }
    step!(st, outs, 1, "iters", Out::V(verif_hook::read() as u128));
}

fn run_ui<S, D>(st: usize, op: u16, a: u128, b: u128, outs: &mut Outs)
where
    S: VF + PartialOrd<I9F23>,
    D: VF + PartialOrd<I9F23> + From<S> + From<I9F23>,
    <D as Fixed>::Bits: Copy + ToFixed + AddAssign + BitOrAssign + ShlAssign,
{
    let x = S::from_raw(a);
    match op {
        SQRT => step!(st, outs, 0, "result", r(tr::sqrt::<S, D>(x))),
        POWI => {
            let n = b as u32 as i32;
            step!(st, outs, 0, "result", r(tr::powi::<S, D>(x, n)));
            step!(st, outs, 1, "iters", Out::V(verif_hook::read() as u128));
            step!(st, outs, 2, "result_abs_n", if n < 0 && n != i32::MIN { r(tr::powi::<S, D>(x, -n)) } else { Out::Na });
            return;
        }
        _ => {}
    }
    step!(st, outs, 1, "iters", Out::V(verif_hook::read() as u128));
}

/// Run one call with the loop counter reset and the given hard iteration limit.
pub fn run(st: usize, pair: usize, op: u16, a: u128, b: u128, limit: u64, outs: &mut Outs) {
    if st == 0 {
        verif_hook::reset();
    }
    verif_hook::set_limit(limit);
    dispatch(st, pair, op, a, b, outs);
    verif_hook::set_limit(u64::MAX);
}

pub const LIMIT_MARKER: &str = verif_hook::LIMIT_MARKER;
