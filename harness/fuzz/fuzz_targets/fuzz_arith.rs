#![no_main]
mod common;
use arbitrary::Unstructured;
use libfuzzer_sys::fuzz_target;
use vcore::Case;

// ops: 0 add 1 sub 2 mul 3 div 4 rem 5 div_euclid 6 rem_euclid 7 mul_int 8 div_int 9 rem_int 10 div_euclid_int
// 11 rem_euclid_int 12 neg 13 abs
const C01_OPS: [u16; 2] = [2, 3];
const C02_OPS: [u16; 8] = [0, 1, 2, 3, 7, 8, 12, 13];
const C07_OPS: [u16; 8] = [4, 5, 6, 9, 10, 11, 5, 10];

fuzz_target!(|data: &[u8]| {
    let mut u = Unstructured::new(data);
    let lay = u.int_in_range(0..=505u16).unwrap_or(0);
    let sel = u.int_in_range(0..=255u16).unwrap_or(0) as usize;
    let a: u128 = u.arbitrary().unwrap_or(0);
    let b: u128 = u.arbitrary().unwrap_or(1);
    for (prop, ops) in [("C01", &C01_OPS[..]), ("C02", &C02_OPS[..]), ("C07", &C07_OPS[..])] {
        if common::wanted(prop) {
            let mut op = ops[sel % ops.len()];
            if op == 13 && lay >= 253 {
                op = 12; // abs exists for signed types only
            }
            let c = Case { op, lay, a, b, ..Case::default() };
            common::judge(&bin_arith::Arith, prop, &c);
        }
    }
});
