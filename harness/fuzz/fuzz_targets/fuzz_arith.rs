#![no_main]
mod common;
use arbitrary::Unstructured;
use libfuzzer_sys::fuzz_target;
use vcore::Case;

fuzz_target!(|data: &[u8]| {
    let mut u = Unstructured::new(data);
    let lay = u.int_in_range(0..=505u16).unwrap_or(0);
    // ops 0..=11: add sub mul div rem div_euclid rem_euclid mul_int div_int rem_int div_euclid_int rem_euclid_int
    let op = u.int_in_range(0..=11u16).unwrap_or(2);
    let a: u128 = u.arbitrary().unwrap_or(0);
    let b: u128 = u.arbitrary().unwrap_or(1);
    let c = Case { op, lay, a, b, ..Case::default() };
    let prop = match op {
        0 | 1 | 7 | 8 => "C02",
        2 | 3 => {
            common::judge(&bin_arith::Arith, "C01", &c);
            "C02"
        }
        _ => "C07",
    };
    common::judge(&bin_arith::Arith, prop, &c);
});
