#![no_main]
mod common;
use arbitrary::Unstructured;
use libfuzzer_sys::fuzz_target;
use vcore::Case;

fuzz_target!(|data: &[u8]| {
    let mut u = Unstructured::new(data);
    let lay = u.int_in_range(0..=505u16).unwrap_or(0);
    let a: u128 = u.arbitrary().unwrap_or(0);
    let n = u.int_in_range(0..=8usize).unwrap_or(0);
    let mut prog = Vec::new();
    for _ in 0..n {
        let wop = u.int_in_range(0..=26u16).unwrap_or(0); // every Wrapping operation except from_str
        // operands: mostly small or structured, sometimes raw
        let x: u128 = match u.int_in_range(0..=3u8).unwrap_or(0) {
            0 => u.arbitrary::<u8>().unwrap_or(0) as u128,
            1 => (u.arbitrary::<i8>().unwrap_or(0) as i128) as u128,
            2 => 1u128 << u.int_in_range(0..=127u32).unwrap_or(0),
            _ => u.arbitrary().unwrap_or(0),
        };
        let y: u128 = u.arbitrary::<u32>().unwrap_or(0) as u128;
        prog.push((wop, x, y));
    }
    let c = Case { op: bin_arith::PROGRAM_OP, lay, a, prog, s: "0".into(), ..Case::default() };
    common::judge(&bin_arith::Arith, "C18", &c);
});
