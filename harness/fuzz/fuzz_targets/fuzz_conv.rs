#![no_main]
mod common;
use arbitrary::Unstructured;
use libfuzzer_sys::fuzz_target;
use std::sync::OnceLock;

fn engine() -> &'static bin_conv::Conv {
    static E: OnceLock<bin_conv::Conv> = OnceLock::new();
    E.get_or_init(bin_conv::Conv::new)
}

fuzz_target!(|data: &[u8]| {
    let mut u = Unstructured::new(data);
    let op_sel = u.int_in_range(0..=255u16).unwrap_or(0);
    let lay = u.int_in_range(0..=505u16).unwrap_or(0);
    let sel2: u16 = u.arbitrary().unwrap_or(0);
    let a: u128 = u.arbitrary().unwrap_or(0);
    let b: u128 = u.arbitrary().unwrap_or(0);
    for prop in ["C03", "C04", "C05"] {
        if common::wanted(prop) {
            if let Some(c) = bin_conv::fuzz_case(prop, op_sel, lay, sel2, a, b) {
                common::judge(engine(), prop, &c);
            }
        }
    }
});
