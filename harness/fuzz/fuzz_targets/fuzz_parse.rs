#![no_main]
mod common;
use arbitrary::Unstructured;
use libfuzzer_sys::fuzz_target;
use vcore::Case;

fuzz_target!(|data: &[u8]| {
    let mut u = Unstructured::new(data);
    let lay = u.int_in_range(0..=505u16).unwrap_or(0);
    let radix = *u.choose(&[10u16, 10, 2, 8, 16]).unwrap_or(&10);
    // the rest is the literal; map bytes onto a small alphabet most of the time so that the parser's
    // digit loops are reached, keep raw bytes otherwise (lossy UTF-8)
    let raw = u.arbitrary::<bool>().unwrap_or(false);
    let rest = u.take_rest();
    let s: String = if raw {
        String::from_utf8_lossy(rest).into_owned()
    } else {
        const ALPHA: &[u8] = b"0123456789abcdefABCDEF.+-_ e";
        rest.iter().map(|b| if *b < 200 { ALPHA[(*b as usize) % 23] as char } else { ALPHA[(*b as usize) % ALPHA.len()] as char }).collect()
    };
    let c = Case { op: 0, lay, lay2: radix, s, ..Case::default() };
    common::judge(&bin_text::Text, "C08", &c);
});
