#![no_main]
mod common;
use arbitrary::Unstructured;
use libfuzzer_sys::fuzz_target;

fuzz_target!(|data: &[u8]| {
    let mut u = Unstructured::new(data);
    let op_sel = u.int_in_range(0..=255u16).unwrap_or(0);
    let pair_sel = u.int_in_range(0..=255u16).unwrap_or(0);
    // operands: raw, or a small magnitude (the interesting region of exp / trig / pow exponents)
    let shape = u.int_in_range(0..=3u8).unwrap_or(0);
    let mut a: u128 = u.arbitrary().unwrap_or(0);
    let mut b: u128 = u.arbitrary().unwrap_or(0);
    if shape & 1 == 1 {
        a = (a as i64 >> u.int_in_range(0..=60u32).unwrap_or(0)) as i128 as u128;
    }
    if shape & 2 == 2 {
        b = (b as i64 >> u.int_in_range(0..=60u32).unwrap_or(0)) as i128 as u128;
    }
    for prop in ["C12", "C13", "C14", "C15", "C16", "C17"] {
        if common::wanted(prop) {
            if let Some(c) = bin_math::fuzz_case(prop, op_sel, pair_sel, a, b) {
                common::judge(&bin_math::Math, prop, &c);
            }
        }
    }
});
