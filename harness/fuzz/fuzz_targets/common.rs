// Shared by the fuzz targets: decode bytes into the engines' `Case`, evaluate it with the SAME oracle as
// the property checks, save a replay file and abort on a mismatch that is not a known finding.
use std::hash::{Hash, Hasher};
use std::sync::OnceLock;
use vcore::run::{Engine, Kf};
use vcore::Case;

pub fn kf() -> &'static Kf {
    static K: OnceLock<Kf> = OnceLock::new();
    K.get_or_init(|| {
        vcore::out::install_silent_panic_hook();
        Kf::load(&std::env::var("VERIF_KF").unwrap_or_else(|_| "/verif/known_findings.json".into()))
    })
}

/// the property this campaign decides (`VERIF_FUZZ_PROP`); a target shared by several properties judges
/// only that one, so that a campaign run for one property never reports another property's violation
pub fn campaign_prop() -> Option<&'static str> {
    static P: OnceLock<Option<String>> = OnceLock::new();
    P.get_or_init(|| std::env::var("VERIF_FUZZ_PROP").ok()).as_deref()
}
pub fn wanted(prop: &str) -> bool {
    campaign_prop().map_or(true, |p| p == prop)
}

pub fn judge<E: Engine>(e: &E, prop: &str, c: &Case) {
    if !wanted(prop) {
        return;
    }
    let ev = e.eval(prop, c, true, kf());
    if !ev.fails.is_empty() {
        let dir = std::env::var("VERIF_FOUND_DIR").unwrap_or_else(|_| format!("/verif/replays/{}/found", prop));
        let _ = std::fs::create_dir_all(&dir);
        let cj = e.case_json(prop, c);
        let mut h = std::collections::hash_map::DefaultHasher::new();
        c.hash(&mut h);
        let path = format!("{}/fuzz-{}-{:016x}.json", dir, prop, h.finish());
        let doc = format!(
            "{{\"case\": {}, \"profile\": \"chk\", \"origin\": \"libFuzzer\", \"mismatches\": [{}]}}",
            cj,
            ev.fails.iter().map(|f| format!("{{\"output\": {:?}, \"got\": {:?}, \"want\": {:?}}}", f.label, f.got, f.want)).collect::<Vec<_>>().join(", ")
        );
        let _ = std::fs::write(&path, doc);
        eprintln!("VIOLATION property={} replay={}", prop, path);
        std::process::abort();
    }
}
