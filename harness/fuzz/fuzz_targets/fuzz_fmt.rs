#![no_main]
mod common;
use arbitrary::Unstructured;
use libfuzzer_sys::fuzz_target;
use vcore::fmtspec::Spec;
use vcore::Case;

fuzz_target!(|data: &[u8]| {
    let mut u = Unstructured::new(data);
    let lay = u.int_in_range(0..=505u16).unwrap_or(0);
    let tr = u.int_in_range(0..=5u16).unwrap_or(0);
    let combo = u.int_in_range(0..=vcore::fmtspec::NCOMBO - 1).unwrap_or(0);
    let width = if u.arbitrary::<bool>().unwrap_or(false) { Some(u.int_in_range(0..=260usize).unwrap_or(0)) } else { None };
    let prec = if u.arbitrary::<bool>().unwrap_or(false) { Some(u.int_in_range(0..=200usize).unwrap_or(0)) } else { None };
    let a: u128 = u.arbitrary().unwrap_or(0);
    let c = Case { op: 1, lay, lay2: tr, a, b: Spec { combo, width, prec }.pack(), ..Case::default() };
    common::judge(&bin_text::Text, "C09", &c);
});
