//! Known-finding predicates of the conv engine (none active unless named by an
//! `open` entry of /verif/known_findings.json).

use vcore::run::Kf;
use vcore::{Case, Exp, Out};

#[allow(unused_variables)]
pub fn matches(kf: &Kf, prop: &str, c: &Case, label: &str, got: &Out, exp: &Exp, chk: bool) -> Option<&'static str> {
    None
}
