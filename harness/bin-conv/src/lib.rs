//! Engine `conv`: C03 (comparisons), C04 (fixed<->fixed / fixed<->integer
//! conversions, From / LossyFrom), C05 (float conversions).
//! Oracles: exact integer / rational arithmetic in `Big`, exact IEEE-754
//! decode / round-to-nearest-even encode in `vcore::flt`.

mod exec;
mod kf;

use exec::*;
use proptest::prelude::*;
use std::cmp::Ordering;
use vcore::flt::{self, FK, FV};
use vcore::gen::{ing, layout_or, pattern, pick, Ing};
use vcore::out::form_exp;
use vcore::run::{Budget, Engine, Kf, Tier};
use vcore::{Big, Case, Eval, Exp, Fail, Out, INTS, L, NLAY};

pub struct Conv {
    pairs_src8: Vec<u16>,
    pairs_by_src: Vec<Vec<u16>>,
    from_by_src: Vec<Vec<u16>>,
    lossy_by_src: Vec<Vec<u16>>,
}

fn by_src(list: &[(u16, u16)]) -> Vec<Vec<u16>> {
    let mut v = vec![Vec::new(); NLAY];
    for (i, (s, _)) in list.iter().enumerate() {
        v[*s as usize].push(i as u16);
    }
    v
}

fn ops_of(prop: &str) -> &'static [u16] {
    match prop {
        "C03" => &[CMP_FF, CMP_FF, CMP_FF, CMP_FI, CMP_FI, CMP_FI, CMP_F32, CMP_F64, CMP_F32, CMP_F64, CMP_SAME, CMP_F16, CMP_BF16],
        "C04" => &[CONV_FF, CONV_FF, CONV_FF, CONV_FI, CONV_FI, CONV_IF, CONV_IF, CONV_BF, FROM_FF, LOSSY_FF, FROM_INT, INT_FROM_FIX, INT_LOSSY_FIX, FROM_BOOL],
        "C05" => &[F32_TO_FIX, F64_TO_FIX, F32_TO_FIX, F64_TO_FIX, FIX_TO_F32, FIX_TO_F64, FLOAT_FROM_FIX],
        _ => &[],
    }
}

fn fk_of(op: u16) -> FK {
    match op {
        CMP_F32 | F32_TO_FIX | FIX_TO_F32 => FK::F32,
        CMP_F16 => FK::F16,
        CMP_BF16 => FK::BF16,
        _ => FK::F64,
    }
}

/// source / destination layouts of a case: (layout of `a`, layout of `b` or of the result)
pub fn layouts(c: &Case) -> (L, L) {
    match c.op {
        CONV_FF | CMP_FF | FROM_FF | LOSSY_FF => {
            let (s, d) = pair_of(c.op, c.lay2);
            (L::from_idx(s as usize), L::from_idx(d as usize))
        }
        FROM_INT => {
            let (k, d) = INT_FROM[c.lay2 as usize % INT_FROM.len()];
            (INTS[k as usize].as_l(), L::from_idx(d as usize))
        }
        INT_FROM_FIX => {
            let (s, k) = FIX_TO_INT_FROM[c.lay2 as usize % FIX_TO_INT_FROM.len()];
            (L::from_idx(s as usize), INTS[k as usize].as_l())
        }
        INT_LOSSY_FIX => {
            let (s, k) = FIX_TO_INT_LOSSY[c.lay2 as usize % FIX_TO_INT_LOSSY.len()];
            (L::from_idx(s as usize), INTS[k as usize].as_l())
        }
        FROM_BOOL => (L::new(false, 8, 0), L::from_idx(BOOL_FROM[c.lay2 as usize % BOOL_FROM.len()] as usize)),
        FLOAT_FROM_FIX => {
            let (s, _) = FLOAT_FROM[c.lay2 as usize % FLOAT_FROM.len()];
            (L::from_idx(s as usize), L::from_idx(s as usize))
        }
        CONV_FI | CMP_FI => (L::from_idx(c.lay as usize), INTS[c.lay2 as usize].as_l()),
        CONV_IF => (INTS[c.lay2 as usize].as_l(), L::from_idx(c.lay as usize)),
        CONV_BF => (L::new(false, 8, 0), L::from_idx(c.lay as usize)),
        _ => (L::from_idx(c.lay as usize), L::from_idx(c.lay as usize)),
    }
}

// ---------- float bit-pattern construction ----------

/// nearest float to x / 2^f
fn nearest(k: FK, x: &Big, f: u32) -> u64 {
    flt::encode_rne(k, x.is_neg(), &x.abs(), -(f as i64))
}

fn step(k: FK, mut bits: u64, d: i64) -> u64 {
    for _ in 0..d.abs() {
        bits = if d > 0 { flt::next_up(k, bits) } else { flt::next_down(k, bits) };
    }
    bits
}

/// float bits aimed at layout l; `a` = a generated fixed value of that layout (for "near x" classes)
fn float_pattern(k: FK, l: L, a: u128, cls: usize, r1: u128, r2: u128) -> u64 {
    let p = k.prec();
    let d = (r2 % 5) as i64 - 2;
    match cls {
        0 => (r1 as u64) & k.mask(),
        1 => {
            // magnitude around 2^e for e in [-f-3, int_bits+2]
            let span = l.w as i64 + 6;
            let e = (r2 >> 8) as i64 % span - l.f as i64 - 3;
            let biased = (e + k.bias() as i64).clamp(0, k.exp_field_max() as i64 - 1) as u64;
            let mant = (r1 as u64) & k.mant_mask();
            let mant = match (r2 >> 40) % 4 {
                0 => 0,
                1 => k.mant_mask(),
                _ => mant,
            };
            (biased << (p - 1)) | mant | if (r2 >> 48) & 1 == 1 && l.signed { k.sign_bit() } else if (r2 >> 49) & 7 == 0 { k.sign_bit() } else { 0 }
        }
        2 => {
            // tie on the destination grid: (n + 1/2) * 2^-f with n of few bits, and float neighbours
            let nb = 1 + (r2 >> 8) as u32 % (p - 2).min(l.w);
            let n = (r1 & ((1u128 << nb) - 1)) as u64;
            let x = Big::from_u64(n).shl(1).add_i64(1); // (2n+1) / 2^(f+1)
            let x = if (r2 >> 20) & 1 == 1 && l.signed { x.neg() } else { x };
            step(k, flt::encode_rne(k, x.is_neg(), &x.abs(), -(l.f as i64) - 1), d)
        }
        3 => {
            // around the bounds: max + 1/2 ulp, min - 1/2 ulp, and their float neighbours
            let t = match (r2 >> 8) % 6 {
                0 => l.hi().shl(1).add_i64(1),
                1 => l.lo().shl(1).add_i64(-1),
                2 => l.hi().shl(1),
                3 => l.lo().shl(1),
                4 => l.hi().shl(1).add_i64(2),
                _ => l.lo().shl(1).add_i64(-2),
            };
            step(k, flt::encode_rne(k, t.is_neg(), &t.abs(), -(l.f as i64) - 1), d)
        }
        4 => {
            // specials
            let mant = (r1 as u64) & k.mant_mask();
            let sign = if (r2 >> 8) & 1 == 1 { k.sign_bit() } else { 0 };
            let top = (k.exp_field_max() - 1) << (p - 1);
            let v = match (r2 >> 12) % 12 {
                0 => 0,
                1 => 1,                                  // min subnormal
                2 => k.mant_mask(),                      // max subnormal
                3 => mant,                               // random subnormal
                4 => top | mant,                         // top finite binade
                5 => top | k.mant_mask(),                // largest finite
                6 => top,                                // 2^emax
                7 => k.inf(false),                       // infinity
                8 => k.inf(false) | mant.max(1),         // NaN, random payload (quiet or signalling)
                9 => k.inf(false) | (1 << (p - 2)),      // canonical quiet NaN
                10 => 1u64 << (p - 1),                   // min normal
                _ => (1u64 << (p - 1)) | mant,           // lowest normal binade
            };
            v | sign
        }
        _ => {
            // nearest float to the generated fixed value, and neighbours
            step(k, nearest(k, &l.val(a), l.f), d)
        }
    }
}
const FCLASS_TABLE: [usize; 12] = [0, 1, 1, 2, 2, 3, 3, 4, 4, 5, 5, 5];
const FCLASS_NAMES: [&str; 6] = ["uniform-bits", "aimed-exponent", "tie-on-grid", "around-bounds", "special", "near-fixed-value"];

// ---------- dependent operands for C03 / C04 ----------

/// value of the other side (layout `ol`) related to the value `av` of layout `l`
fn related(l: L, ol: L, av: &Big, mode: usize, r: u128) -> u128 {
    let d = Big::from_i64((r % 5) as i64 - 2);
    let sh = ol.f as i64 - l.f as i64;
    match mode {
        // floor image of a in the other layout, +- few ulps
        1 => ol.wrap(&(&av.scale_floor(sh) + &d)),
        // values in [max_l, 2 max_l) and (2 min_l, min_l], expressed in the other layout
        2 => {
            let base = if (r >> 8) & 1 == 0 { l.hi() } else { l.lo() };
            let extra = Big::from_u128((r >> 16) & l.mask()).shr_floor(((r >> 9) % l.w as u128) as u32);
            let v = if base.is_neg() { &base - &extra } else { &base + &extra };
            let v = if v.abs() >= l.hi().shl(1) { base.clone() } else { v };
            ol.wrap(&(&v.scale_floor(sh) + &d))
        }
        // the other layout's own bounds
        3 => ol.wrap(&(&(if (r >> 8) & 1 == 0 { ol.hi() } else { ol.lo() }) + &d)),
        // image of l's bounds +- 1
        _ => {
            let base = match (r >> 8) % 4 {
                0 => l.hi(),
                1 => l.lo(),
                2 => l.hi().add_i64(1),
                _ => l.lo().add_i64(-1),
            };
            ol.wrap(&(&base.scale_floor(sh) + &d))
        }
    }
}
const REL_TABLE: [usize; 10] = [0, 0, 0, 1, 1, 1, 2, 2, 3, 4];

fn ord_exp(ord: Option<Ordering>, label: &str) -> Exp {
    let (rev, base) = match label.strip_prefix("r_") {
        Some(b) => (true, b),
        None => (false, label),
    };
    let ord = if rev { ord.map(|o| o.reverse()) } else { ord };
    let b = |x: bool| Exp::Is(Out::B(x));
    match base {
        "eq" => b(ord == Some(Ordering::Equal)),
        "ne" => b(ord != Some(Ordering::Equal)),
        "lt" => b(ord == Some(Ordering::Less)),
        "le" => b(matches!(ord, Some(Ordering::Less) | Some(Ordering::Equal))),
        "gt" => b(ord == Some(Ordering::Greater)),
        "ge" => b(matches!(ord, Some(Ordering::Greater) | Some(Ordering::Equal))),
        "partial_cmp" | "cmp" => Exp::Is(Out::O(ord.map(|o| match o {
            Ordering::Less => 0,
            Ordering::Equal => 1,
            Ordering::Greater => 2,
        }))),
        _ => Exp::Free,
    }
}

fn form_of(label: &str) -> &str {
    label.split(':').nth(1).unwrap_or("plain")
}

impl Conv {
    pub fn new() -> Conv {
        let pairs_src8 = PAIRS.iter().enumerate().filter(|(_, (s, _))| L::from_idx(*s as usize).w == 8).map(|(i, _)| i as u16).collect();
        Conv { pairs_src8, pairs_by_src: by_src(&PAIRS), from_by_src: by_src(&FROM_PAIRS), lossy_by_src: by_src(&LOSSY_PAIRS) }
    }
    fn pick_pair(&self, op: u16, stratum: Option<u16>, r: u128) -> u16 {
        let (by, n) = match op {
            FROM_FF => (&self.from_by_src, FROM_PAIRS.len()),
            LOSSY_FF => (&self.lossy_by_src, LOSSY_PAIRS.len()),
            _ => (&self.pairs_by_src, PAIRS.len()),
        };
        if let Some(s) = stratum {
            let v = &by[s as usize];
            if !v.is_empty() {
                return v[(r % v.len() as u128) as usize];
            }
        }
        ((r >> 7) % n as u128) as u16
    }
}

impl Engine for Conv {
    fn name(&self) -> &'static str {
        "conv"
    }
    fn props(&self) -> Vec<&'static str> {
        vec!["C03", "C04", "C05"]
    }
    fn op_name(&self, _prop: &str, op: u16) -> String {
        OP_NAMES[op as usize].to_string()
    }
    fn op_from_name(&self, _prop: &str, s: &str) -> Option<u16> {
        OP_NAMES.iter().position(|n| *n == s).map(|i| i as u16)
    }
    fn strategy(&self, prop: &str, stratum: Option<u16>) -> BoxedStrategy<Case> {
        let ops = ops_of(prop);
        let pairs_by_src = self.pairs_by_src.clone();
        let from_by_src = self.from_by_src.clone();
        let lossy_by_src = self.lossy_by_src.clone();
        let me = Conv { pairs_src8: Vec::new(), pairs_by_src, from_by_src, lossy_by_src };
        (layout_or(stratum), pick(ops.len()), ing(), ing(), (pick(REL_TABLE.len()), pick(FCLASS_TABLE.len()), pick(12)), any::<u128>(), any::<u128>())
            .prop_map(move |(lay, oi, ia, ib, (rel, fcls, kind), r3, r4)| {
                let op = ops[oi];
                let mut c = Case { op, lay, ..Case::default() };
                match op {
                    CONV_FF | CMP_FF | FROM_FF | LOSSY_FF => {
                        c.lay2 = me.pick_pair(op, stratum.or(if r4 & 3 == 0 { Some(lay) } else { None }), r4 >> 2);
                        let (s, d) = pair_of(op, c.lay2);
                        c.lay = s;
                        let (sl, dl) = (L::from_idx(s as usize), L::from_idx(d as usize));
                        c.a = pattern(sl, ia);
                        let mode = REL_TABLE[rel];
                        if op == CMP_FF {
                            c.b = if mode == 0 { pattern(dl, ib) } else { related(sl, dl, &sl.val(c.a), mode, r3) };
                        } else if mode != 0 {
                            // source value related to the destination's bounds / grid
                            c.a = related(dl, sl, &dl.val(pattern(dl, ib)), mode, r3);
                        }
                    }
                    CONV_FI | CMP_FI | CONV_IF => {
                        c.lay2 = kind as u16;
                        let l = L::from_idx(lay as usize);
                        let il = INTS[kind].as_l();
                        c.a = pattern(l, ia);
                        let mode = REL_TABLE[rel];
                        match op {
                            CMP_FI => c.b = if mode == 0 { pattern(il, ib) } else { related(l, il, &l.val(c.a), mode, r3) },
                            CONV_FI => {
                                if mode != 0 {
                                    c.a = related(il, l, &il.val(pattern(il, ib)), mode, r3);
                                }
                            }
                            _ => {
                                c.a = 0;
                                c.b = if mode == 0 { pattern(il, ib) } else { related(l, il, &l.val(pattern(l, ia)), mode, r3) };
                            }
                        }
                    }
                    CONV_BF => c.b = r3 & 1,
                    FROM_INT => {
                        c.lay2 = ((r4 >> 3) % INT_FROM.len() as u128) as u16;
                        let (k, d) = INT_FROM[c.lay2 as usize];
                        c.lay = d;
                        c.b = pattern(INTS[k as usize].as_l(), ia);
                    }
                    INT_FROM_FIX | INT_LOSSY_FIX => {
                        let n = if op == INT_FROM_FIX { FIX_TO_INT_FROM.len() } else { FIX_TO_INT_LOSSY.len() };
                        c.lay2 = ((r4 >> 3) % n as u128) as u16;
                        let (s, _) = if op == INT_FROM_FIX { FIX_TO_INT_FROM[c.lay2 as usize] } else { FIX_TO_INT_LOSSY[c.lay2 as usize] };
                        c.lay = s;
                        c.a = pattern(L::from_idx(s as usize), ia);
                    }
                    FROM_BOOL => {
                        c.lay2 = ((r4 >> 3) % BOOL_FROM.len() as u128) as u16;
                        c.lay = BOOL_FROM[c.lay2 as usize];
                        c.b = r3 & 1;
                    }
                    FLOAT_FROM_FIX => {
                        c.lay2 = ((r4 >> 3) % FLOAT_FROM.len() as u128) as u16;
                        let (s, _) = FLOAT_FROM[c.lay2 as usize];
                        c.lay = s;
                        c.a = pattern(L::from_idx(s as usize), ia);
                    }
                    CMP_SAME => {
                        let l = L::from_idx(lay as usize);
                        c.a = pattern(l, ia);
                        c.b = match REL_TABLE[rel] {
                            0 => pattern(l, ib),
                            1 | 2 => c.a,
                            _ => l.wrap(&l.val(c.a).add_i64((r3 % 5) as i64 - 2)),
                        };
                    }
                    CMP_F32 | CMP_F64 | CMP_F16 | CMP_BF16 | F32_TO_FIX | F64_TO_FIX => {
                        let l = L::from_idx(lay as usize);
                        c.a = pattern(l, ia);
                        let k = fk_of(op);
                        c.b = float_pattern(k, l, pattern(l, ib), FCLASS_TABLE[fcls], r3, r4) as u128;
                        if matches!(op, CMP_F32 | CMP_F64 | CMP_F16 | CMP_BF16) && FCLASS_TABLE[fcls] == 5 {
                            // compare x with floats near x itself
                            c.b = float_pattern(k, l, c.a, 5, r3, r4) as u128;
                        }
                        if op == F32_TO_FIX || op == F64_TO_FIX {
                            c.a = 0;
                        }
                    }
                    _ => {
                        // FIX_TO_F32 / FIX_TO_F64: values with more significant bits than the float holds
                        let l = L::from_idx(lay as usize);
                        let k = fk_of(op);
                        let p = k.prec();
                        c.a = match REL_TABLE[rel] {
                            0 | 3 => pattern(l, ia),
                            1 => {
                                // p significant bits, then a tie bit, +- 1
                                if l.w > p + 1 {
                                    let top = ((r3 as u64 & k.mant_mask()) | (1 << (p - 1))) as u128;
                                    let top = if (r4 >> 70) & 3 == 0 { (1u128 << p) - 1 } else { top };
                                    let v = (top << 1) | 1;
                                    let sh = (r4 % (l.w - p - 1 + 1) as u128) as u32;
                                    let v = (v << sh).wrapping_add(((r4 >> 64) % 3) as u128).wrapping_sub(1);
                                    let v = if l.signed && (r4 >> 90) & 1 == 1 { v.wrapping_neg() } else { v };
                                    v & l.mask()
                                } else {
                                    pattern(l, ia)
                                }
                            }
                            2 => {
                                // f32 results that are subnormal or overflow
                                let v = if (r4 >> 3) & 1 == 0 { (r3 & 0xff_ffff_ffff) >> (r4 % 40) } else { l.raw_max() - ((r3 & l.mask()) >> (l.w / 2 + (r4 % 32) as u32 % (l.w / 2))) };
                                v & l.mask()
                            }
                            _ => pattern(l, ib),
                        };
                    }
                }
                c
            })
            .boxed()
    }
    fn budget(&self, prop: &str, tier: Tier) -> Budget {
        let strata: Vec<u16> = (0..NLAY as u16).collect();
        let nops = ops_of(prop).len() as u64;
        match tier {
            Tier::Quick => Budget { random: 1_500_000, per_stratum: 150 * nops, strata },
            Tier::Thorough => Budget { random: 150_000_000, per_stratum: 5000 * nops, strata },
        }
    }
    fn exh_len(&self, prop: &str, _tier: Tier) -> u64 {
        match prop {
            // every value of every 8-bit layout against every pair-list destination / int kind
            "C04" => 18 * 256 * 12 + 256 * self.pairs_src8.len() as u64,
            // every f32 with biased exponent in a window x 18 eight-bit layouts is too many; instead
            // all 8-bit values -> f32/f64 and all 16-bit ties
            "C05" => 18 * 256 * 2,
            _ => 0,
        }
    }
    fn exh_case(&self, prop: &str, _tier: Tier, i: u64) -> Case {
        let lay8 = |k: u64| -> u16 { if k < 9 { k as u16 } else { (253 + k - 9) as u16 } };
        match prop {
            "C04" => {
                let a = i % 256;
                let r = i / 256;
                if r < 18 * 12 {
                    Case { op: CONV_FI, lay: lay8(r % 18), lay2: (r / 18) as u16, a: a as u128, ..Case::default() }
                } else {
                    let pi = self.pairs_src8[(r - 18 * 12) as usize];
                    Case { op: CONV_FF, lay: PAIRS[pi as usize].0, lay2: pi, a: a as u128, ..Case::default() }
                }
            }
            "C05" => {
                let a = i % 256;
                let r = i / 256;
                Case { op: if (r / 18) == 0 { FIX_TO_F32 } else { FIX_TO_F64 }, lay: lay8(r % 18), a: a as u128, ..Case::default() }
            }
            _ => unreachable!(),
        }
    }
    fn exh_desc(&self, prop: &str, _tier: Tier) -> String {
        match prop {
            "C04" => "every value of all 18 eight-bit layouts -> each of the 12 primitive integer types, and every value of every pair-list entry with an 8-bit source, all forms".into(),
            "C05" => "every value of all 18 eight-bit layouts -> f32 and f64".into(),
            _ => String::new(),
        }
    }
    fn lay_is_layout(&self, _prop: &str) -> bool {
        true
    }
    fn rule(&self, prop: &str) -> String {
        match prop {
            "C03" => format!("cases = (x in layout L, y) with y a fixed-point value of another layout (fixed list of {} ordered layout pairs covering all 100 family pairs), a primitive integer (12 types, all 506 layouts), f32/f64 (all 506 layouts) or a value of the same type; y generated relative to x (floor image +- ulps, values in [max_L, 2max_L) / below min_L, the other side's bounds, nearest float and neighbours, float specials). Oracle: exact rational comparison by cross-multiplication in big integers; all six operators + partial_cmp in both operand orders; same type: cmp/max/min/hash. Non-trivial: values differ by less than one ulp of the coarser side, or y outside L's range, or a float special.", PAIRS.len()),
            "C04" => format!("cases = (source value, destination) over {} ordered layout pairs, 506 layouts x 12 integer types + bool, {} provided From pairs and {} provided LossyFrom pairs (sampled at tight bounds), plus the provided infallible conversions int->fixed (100), fixed->int From (40) / LossyFrom (225), bool->fixed (30); oracle floor(a*2^(f'-f)) / n*2^f' in exact integers, all five forms through both entry points (to_num/from_num and FromFixed/ToFixed). Non-trivial: non-zero bits discarded, or result not representable, or within 1 of a bound.", PAIRS.len(), FROM_PAIRS.len(), LOSSY_PAIRS.len()),
            "C05" => "cases = (layout, f32|f64 bit pattern) and (layout, fixed value); float patterns: uniform bits, exponent aimed at the layout, constructed ties on the destination grid and float neighbours, around max+1/2ulp / min-1/2ulp, specials (zeros, subnormals, top binade, infinities, NaNs); fixed values with more significant bits than the float's precision, ties on the float grid, all-ones mantissas, f32-subnormal and f32-overflowing results. Oracle: exact RNE of value*2^f in big integers; exact IEEE-754 RNE encoder, compared bit for bit. Non-trivial: rounding discards non-zero bits, or a special class, or within 1 ulp of a bound.".into(),
            _ => String::new(),
        }
    }
    fn assumptions(&self, _prop: &str) -> Vec<String> {
        vec![
            "oracle: harness Big integers and IEEE-754 encoder/decoder (self-tested against the host's integer<->float casts at start of run)".into(),
            "layout pairs are a fixed generated list, not all 506^2 (compile-time type parameters)".into(),
            "a plain (no overflow handling) conversion whose result does not fit may return the wrapped value or panic".into(),
        ]
    }
    fn required_classes(&self, prop: &str, _tier: Tier) -> Vec<&'static str> {
        match prop {
            "C03" => vec!["rhs-in-[max,2max)", "less-than-one-ulp-apart", "nan", "infinity", "top-binade", "subnormal", "equal", "signed-vs-unsigned"],
            "C04" => vec!["negative-with-lost-bits", "overflow-high", "overflow-low", "unsigned->signed", "signed->unsigned", "from", "lossy_from", "shift>=64", "primitive-infallible"],
            "C05" => vec!["fixed->float-infallible", "tie-to-even-down", "tie-to-even-up", "nan", "infinity", "top-binade", "subnormal-input", "underflow-to-zero", "to-float-inexact", "to-float-tie", "overflow"],
            _ => vec![],
        }
    }
    fn echo(&self, _prop: &str, c: &Case) -> Option<Case> {
        // single-layout operations only (for the pair operations `lay2` indexes a table of type pairs)
        if !matches!(c.op, CONV_FI | CONV_IF | CONV_BF | CMP_FI | CMP_F32 | CMP_F64 | CMP_F16 | CMP_BF16 | CMP_SAME | F32_TO_FIX | F64_TO_FIX | FIX_TO_F32 | FIX_TO_F64) {
            return None;
        }
        let mut s = c.clone();
        s.lay = vcore::run::same_width_layout(c.lay, c.a as u64 ^ (c.b as u64).rotate_left(17) ^ c.op as u64);
        if s.lay == c.lay { None } else { Some(s) }
    }
    fn eval(&self, prop: &str, c: &Case, chk: bool, kf: &Kf) -> Eval {
        let mut ev = Eval::default();
        let (sl, dl) = layouts(c);
        let a = c.a & sl.mask();
        let op = c.op;
        let outs = exec(op, c.lay, c.lay2, a, c.b);
        let _ = a;
        let mut note = String::new();
        let mut check = |label: &str, got: &Out, exp: Exp, ev: &mut Eval| {
            if !exp.accepts(got, chk) {
                if let Some(id) = kf::matches(kf, prop, c, label, got, &exp, chk) {
                    if !ev.known.contains(&id) {
                        ev.known.push(id);
                    }
                    return;
                }
                ev.fails.push(Fail { label: label.to_string(), got: got.show(), want: exp.show() });
            }
        };
        for (label, got) in &outs {
            if note.len() < 140 {
                note.push_str(&format!("{}={} ", label, got.show()));
            }
        }
        match op {
            FLOAT_FROM_FIX => {
                let (_, fk) = FLOAT_FROM[c.lay2 as usize % FLOAT_FROM.len()];
                let k = if fk == 0 { FK::F32 } else { FK::F64 };
                let av = sl.val(a);
                let want = flt::encode_rne(k, av.is_neg(), &av.abs(), -(sl.f as i64)) as u128;
                // a lossless From must be exact: converting back gives the same value
                let exact = match flt::decode(k, want as u64) {
                    FV::Fin { neg, mant, exp } => flt::cmp_fixed_float(&av, sl.f, neg, mant, exp) == Ordering::Equal,
                    _ => false,
                };
                for (label, got) in &outs {
                    check(label, got, Exp::Is(Out::V(want)), &mut ev);
                }
                if !exact {
                    ev.fails.push(Fail { label: "float-from-soundness".into(), got: "provided From<fixed> for float is not lossless".into(), want: "exact".into() });
                }
                ev.class("from");
                ev.class("fixed->float-infallible");
                ev.nontrivial = !av.is_zero();
            }
            CONV_FF | CONV_FI | CONV_IF | CONV_BF | FROM_FF | LOSSY_FF | FROM_INT | INT_FROM_FIX | INT_LOSSY_FIX | FROM_BOOL => {
                let src_val = if op == CONV_IF || op == FROM_INT {
                    sl.val(c.b)
                } else if op == CONV_BF || op == FROM_BOOL {
                    Big::from_u64((c.b & 1) as u64)
                } else {
                    sl.val(a)
                };
                let sh = dl.f as i64 - sl.f as i64;
                let r = src_val.scale_floor(sh);
                let fits = dl.fits(&r);
                let lost = r.scale_floor(-sh.min(0)) != src_val && sh < 0;
                for (label, got) in &outs {
                    let exp = match op {
                        FROM_FF | LOSSY_FF | FROM_INT | INT_FROM_FIX | INT_LOSSY_FIX | FROM_BOOL => Exp::Is(Out::V(dl.wrap(&r))),
                        _ => form_exp(dl, form_of(label), &r),
                    };
                    check(label, got, exp, &mut ev);
                }
                if matches!(op, FROM_INT | INT_FROM_FIX | FROM_BOOL) {
                    ev.class("from");
                    ev.class("primitive-infallible");
                    if lost || !fits {
                        ev.fails.push(Fail { label: "from-soundness".into(), got: "provided From conversion loses value".into(), want: "value preserved".into() });
                    }
                }
                if op == INT_LOSSY_FIX {
                    ev.class("lossy_from");
                    ev.class("primitive-infallible");
                    if !fits {
                        ev.fails.push(Fail { label: "lossy-soundness".into(), got: "provided LossyFrom conversion overflows".into(), want: "only fractional bits lost".into() });
                    }
                }
                if op == FROM_FF {
                    ev.class("from");
                    if lost || !fits {
                        ev.fails.push(Fail { label: "from-pair-soundness".into(), got: "provided From conversion loses value".into(), want: "value preserved".into() });
                    }
                }
                if op == LOSSY_FF {
                    ev.class("lossy_from");
                    if !fits {
                        ev.fails.push(Fail { label: "lossy-pair-soundness".into(), got: "provided LossyFrom conversion overflows".into(), want: "only fractional bits lost".into() });
                    }
                }
                if lost && src_val.is_neg() {
                    ev.class("negative-with-lost-bits");
                }
                if !fits {
                    ev.class(if r > dl.hi() { "overflow-high" } else { "overflow-low" });
                }
                if sl.signed != dl.signed {
                    ev.class(if sl.signed { "signed->unsigned" } else { "unsigned->signed" });
                }
                if sh.abs() >= 64 {
                    ev.class("shift>=64");
                }
                if sh > 0 {
                    ev.class("widen-frac");
                } else if sh < 0 {
                    ev.class("narrow-frac");
                }
                ev.class(match op {
                    CONV_FF => "fixed->fixed",
                    CONV_FI => "fixed->int",
                    CONV_IF => "int->fixed",
                    CONV_BF | FROM_BOOL => "bool->fixed",
                    FROM_INT => "int->fixed",
                    INT_FROM_FIX | INT_LOSSY_FIX => "fixed->int",
                    _ => "infallible",
                });
                let near = (&r - &dl.hi()).abs() <= Big::one() || (&r - &dl.lo()).abs() <= Big::one();
                ev.nontrivial = lost || !fits || near;
            }
            CMP_FF | CMP_FI | CMP_SAME => {
                let b = c.b & dl.mask();
                let (av, bv) = (sl.val(a), dl.val(b));
                // a/2^fs ? b/2^fd  <=>  a*2^fd ? b*2^fs
                let (x, y) = (av.shl(dl.f), bv.shl(sl.f));
                let ord = x.cmp(&y);
                for (label, got) in &outs {
                    let exp = match *label {
                        "max" => Exp::Is(Out::V(if ord == Ordering::Less { b } else { a })),
                        "min" => Exp::Is(Out::V(if ord == Ordering::Greater { b } else { a })),
                        // equal values must hash equally; that unequal values hash differently is not stated
                        "hash_eq" => {
                            if ord == Ordering::Equal {
                                Exp::Is(Out::B(true))
                            } else {
                                Exp::Free
                            }
                        }
                        _ => ord_exp(Some(ord), label),
                    };
                    check(label, got, exp, &mut ev);
                }
                // classes
                let coarse = Big::pow2(sl.f.max(dl.f) - sl.f.min(dl.f)); // one ulp of the coarser side, in the finer scale
                let diff = (&x - &y).abs().shr_floor(sl.f.min(dl.f));
                let close = diff < coarse && ord != Ordering::Equal;
                if ord == Ordering::Equal {
                    ev.class("equal");
                }
                if close {
                    ev.class("less-than-one-ulp-apart");
                }
                // y relative to L's range, in y's own scale: max_L * 2^fd vs b * 2^fs
                let hi_s = sl.hi().add_i64(1).shl(dl.f);
                let outside = y >= hi_s || y < sl.lo().shl(dl.f);
                if y >= hi_s && y < hi_s.shl(1) && sl.signed {
                    ev.class("rhs-in-[max,2max)");
                }
                if outside {
                    ev.class("rhs-outside-lhs-range");
                }
                if sl.signed != dl.signed {
                    ev.class("signed-vs-unsigned");
                }
                if av.is_neg() != bv.is_neg() {
                    ev.class("sign-short-circuit");
                }
                ev.class(match op {
                    CMP_FF => "fixed-vs-fixed",
                    CMP_FI => "fixed-vs-int",
                    _ => "same-type",
                });
                ev.nontrivial = close || outside || (op == CMP_SAME && ord == Ordering::Equal);
            }
            CMP_F16 | CMP_BF16 if outs.is_empty() => {
                // harness built without the library's f16 feature
                ev.skipped = true;
            }
            CMP_F32 | CMP_F64 | CMP_F16 | CMP_BF16 => {
                let k = fk_of(op);
                let fv = flt::decode(k, c.b as u64);
                let av = sl.val(a);
                let ord = match &fv {
                    FV::Nan => None,
                    FV::Inf(neg) => Some(if *neg { Ordering::Greater } else { Ordering::Less }),
                    FV::Fin { neg, mant, exp } => Some(flt::cmp_fixed_float(&av, sl.f, *neg, *mant, *exp)),
                };
                for (label, got) in &outs {
                    check(label, got, ord_exp(ord, label), &mut ev);
                }
                classify_float(k, c.b as u64, &mut ev);
                let mut special = matches!(fv, FV::Nan | FV::Inf(_));
                if let FV::Fin { neg, mant, exp } = fv {
                    let r = flt::float_to_raw_rne(neg, mant, exp, sl.f);
                    if !sl.fits(&r) {
                        ev.class("rhs-outside-lhs-range");
                        special = true;
                        if sl.signed && !neg && r <= sl.hi().shl(1) {
                            ev.class("rhs-in-[max,2max)");
                        }
                    }
                    if (&r - &av).abs() <= Big::one() && ord != Some(Ordering::Equal) {
                        ev.class("less-than-one-ulp-apart");
                        special = true;
                    }
                    if ord == Some(Ordering::Equal) {
                        ev.class("equal");
                    }
                    if exp < k.min_exp2() + 1 || (mant >> (k.prec() - 1)) == 0 {
                        special |= mant != 0;
                    }
                }
                ev.class("fixed-vs-float");
                ev.nontrivial = special;
            }
            F32_TO_FIX | F64_TO_FIX => {
                let k = fk_of(op);
                let fv = flt::decode(k, c.b as u64);
                classify_float(k, c.b as u64, &mut ev);
                match fv {
                    FV::Nan | FV::Inf(_) => {
                        for (label, got) in &outs {
                            let exp = match (form_of(label), &fv) {
                                ("checked", _) | ("static", _) => Exp::Is(Out::O(None)),
                                ("saturating", FV::Inf(neg)) => Exp::Is(Out::V(if *neg { dl.raw_min() } else { dl.raw_max() })),
                                _ => Exp::MustPanic,
                            };
                            check(label, got, exp, &mut ev);
                        }
                        ev.nontrivial = true;
                    }
                    FV::Fin { neg, mant, exp } => {
                        let r = flt::float_to_raw_rne(neg, mant, exp, dl.f);
                        for (label, got) in &outs {
                            check(label, got, form_exp(dl, form_of(label), &r), &mut ev);
                        }
                        // classes: what did rounding do?
                        let s = exp as i64 + dl.f as i64;
                        let mut inexact = false;
                        if s < 0 && mant != 0 {
                            let sh = (-s) as u32;
                            let m = Big::from_u64(mant);
                            let fl = m.shr_trunc(sh.min(200));
                            let rem = &m - &fl.shl(sh.min(200));
                            inexact = !rem.is_zero();
                            if inexact {
                                let half = Big::pow2(sh.min(200) - 1);
                                if rem == half {
                                    ev.class(if fl.is_odd() { "tie-to-even-up" } else { "tie-to-even-down" });
                                } else if rem < half {
                                    ev.class("below-tie");
                                } else {
                                    ev.class("above-tie");
                                }
                                if r.is_zero() {
                                    ev.class("underflow-to-zero");
                                }
                            }
                        }
                        let fits = dl.fits(&r);
                        if !fits {
                            ev.class("overflow");
                        }
                        let near = (&r - &dl.hi()).abs() <= Big::one() || (&r - &dl.lo()).abs() <= Big::one();
                        ev.nontrivial = inexact || !fits || near || exp + (k.prec() as i32) - 1 >= k.bias() || (mant >> (k.prec() - 1)) == 0 && mant != 0;
                    }
                }
                ev.class("float->fixed");
            }
            _ => {
                // FIX_TO_F32 / FIX_TO_F64
                let k = fk_of(op);
                let av = sl.val(a);
                let want = flt::encode_rne(k, av.is_neg(), &av.abs(), -(sl.f as i64)) as u128;
                let is_inf = want as u64 & !k.sign_bit() == k.inf(false);
                for (label, got) in &outs {
                    let exp = match form_of(label) {
                        "checked" => {
                            if is_inf {
                                Exp::OneOf(vec![Out::O(Some(want)), Out::O(None)])
                            } else {
                                Exp::Is(Out::O(Some(want)))
                            }
                        }
                        "saturating" => {
                            if is_inf {
                                Exp::OneOf(vec![Out::V(want), Out::V(k.max_finite(av.is_neg()) as u128)])
                            } else {
                                Exp::Is(Out::V(want))
                            }
                        }
                        "overflowing" => {
                            if is_inf {
                                Exp::OneOf(vec![Out::F(want, false), Out::F(want, true)])
                            } else {
                                Exp::Is(Out::F(want, false))
                            }
                        }
                        "static" => Exp::OneOf(vec![Out::O(Some(want)), Out::O(None)]),
                        _ => Exp::Is(Out::V(want)),
                    };
                    check(label, got, exp, &mut ev);
                }
                // classes
                let nb = av.bits();
                let tz = if av.is_zero() { 0 } else { av.mag_trailing_zeros() };
                let inexact = nb > k.prec() && nb - tz > k.prec();
                if inexact {
                    ev.class("to-float-inexact");
                    if nb - tz == k.prec() + 1 {
                        ev.class("to-float-tie");
                    }
                }
                if is_inf {
                    ev.class("to-float-overflow-to-infinity");
                }
                let e = want as u64 >> (k.prec() - 1) & k.exp_field_max();
                if e == 0 && !av.is_zero() {
                    ev.class("to-float-subnormal-result");
                }
                ev.class("fixed->float");
                ev.nontrivial = inexact || is_inf || (e == 0 && !av.is_zero());
            }
        }
        ev.note = note;
        ev
    }
    fn exec_raw(&self, _prop: &str, c: &Case) -> vcore::out::Outs {
        let (sl, _) = layouts(c);
        exec(c.op, c.lay, c.lay2, c.a & sl.mask(), c.b)
    }
    fn selftest(&self) -> Result<u64, String> {
        // hand-computed vectors for the float oracle: 0.1f32 -> I8F8 (25.6 -> 26), ties
        let r = |bits: u32, f: u32| -> i128 {
            match flt::decode(FK::F32, bits as u64) {
                FV::Fin { neg, mant, exp } => flt::float_to_raw_rne(neg, mant, exp, f).shr_floor(if bits == f32::MAX.to_bits() { 8 } else { 0 }).to_i128().unwrap(),
                _ => i128::MIN,
            }
        };
        let v = [
            (r(0.1f32.to_bits(), 8), 26),
            (r(0.5f32.to_bits(), 0), 0),   // tie to even 0
            (r(1.5f32.to_bits(), 0), 2),   // tie to even 2
            (r(2.5f32.to_bits(), 0), 2),
            (r((-2.5f32).to_bits(), 0), -2),
            (r((-3.5f32).to_bits(), 0), -4),
            (r(0.75f32.to_bits(), 1), 2),  // 1.5 -> 2
            (r(f32::MAX.to_bits(), 0), 0xffffff_i128 << 96),
            (r(1, 149), 1),                // min subnormal * 2^149 = 1
            (r(1, 148), 0),                // 0.5 -> even 0
            (r(3, 148), 2),                // 1.5 -> 2
        ];
        for (i, (g, w)) in v.iter().enumerate() {
            if g != w {
                return Err(format!("conv float oracle selftest {}: got {} want {}", i, g, w));
            }
        }
        // every generated pair list entry must be consistent with the stated soundness rule
        for (s, d) in FROM_PAIRS.iter() {
            let (s, d) = (L::from_idx(*s as usize), L::from_idx(*d as usize));
            if !(s.f <= d.f && (!s.signed || d.signed) && s.int_bits() + (if !s.signed && d.signed { 1 } else { 0 }) <= d.int_bits()) {
                return Err("FROM_PAIRS list inconsistent".into());
            }
        }
        Ok(v.len() as u64 + FROM_PAIRS.len() as u64)
    }
}

fn classify_float(k: FK, bits: u64, ev: &mut Eval) {
    let e = (bits >> (k.prec() - 1)) & k.exp_field_max();
    let m = bits & k.mant_mask();
    if e == k.exp_field_max() {
        ev.class(if m == 0 { "infinity" } else { "nan" });
    } else if e == k.exp_field_max() - 1 {
        ev.class("top-binade");
    } else if e == 0 {
        ev.class(if m == 0 { "zero" } else { "subnormal" });
        if m != 0 {
            ev.class("subnormal-input");
        }
    }
    let _ = FCLASS_NAMES;
}

pub fn main_entry() {
    std::process::exit(vcore::run::main_with2(&Conv::new(), lay::is_chk(), lay::is_oc()));
}

/// Builds a well-formed case from raw fuzzer-chosen numbers (used by the coverage-guided target): the
/// operation is taken from the property's list, table indices are reduced to their tables, operands
/// are masked to their layouts. Returns None for a property this engine does not decide.
pub fn fuzz_case(prop: &str, op_sel: u16, lay: u16, sel2: u16, a: u128, b: u128) -> Option<Case> {
    let ops = ops_of(prop);
    if ops.is_empty() {
        return None;
    }
    let op = ops[op_sel as usize % ops.len()];
    let mut c = Case { op, lay: lay % NLAY as u16, a, b, ..Case::default() };
    match op {
        CONV_FF | CMP_FF => {
            c.lay2 = sel2 % PAIRS.len() as u16;
            c.lay = PAIRS[c.lay2 as usize].0;
        }
        FROM_FF => {
            c.lay2 = sel2 % FROM_PAIRS.len() as u16;
            c.lay = FROM_PAIRS[c.lay2 as usize].0;
        }
        LOSSY_FF => {
            c.lay2 = sel2 % LOSSY_PAIRS.len() as u16;
            c.lay = LOSSY_PAIRS[c.lay2 as usize].0;
        }
        FROM_INT => {
            c.lay2 = sel2 % INT_FROM.len() as u16;
            c.lay = INT_FROM[c.lay2 as usize].1;
        }
        INT_FROM_FIX => {
            c.lay2 = sel2 % FIX_TO_INT_FROM.len() as u16;
            c.lay = FIX_TO_INT_FROM[c.lay2 as usize].0;
        }
        INT_LOSSY_FIX => {
            c.lay2 = sel2 % FIX_TO_INT_LOSSY.len() as u16;
            c.lay = FIX_TO_INT_LOSSY[c.lay2 as usize].0;
        }
        FROM_BOOL => {
            c.lay2 = sel2 % BOOL_FROM.len() as u16;
            c.lay = BOOL_FROM[c.lay2 as usize];
        }
        FLOAT_FROM_FIX => {
            c.lay2 = sel2 % FLOAT_FROM.len() as u16;
            c.lay = FLOAT_FROM[c.lay2 as usize].0;
        }
        CONV_FI | CMP_FI | CONV_IF => c.lay2 = sel2 % 12,
        _ => c.lay2 = 0,
    }
    let (sl, dl) = layouts(&c);
    match op {
        CONV_IF | FROM_INT => {
            c.a = 0;
            c.b &= sl.mask();
        }
        CONV_BF | FROM_BOOL => {
            c.a = 0;
            c.b &= 1;
        }
        CMP_F32 | F32_TO_FIX => c.b &= 0xffff_ffff,
        CMP_F16 | CMP_BF16 => c.b &= 0xffff,
        CMP_F64 | F64_TO_FIX => c.b &= 0xffff_ffff_ffff_ffff,
        CMP_FF | CMP_FI | CMP_SAME => c.b &= dl.mask(),
        _ => c.b = 0,
    }
    if matches!(op, F32_TO_FIX | F64_TO_FIX) {
        c.a = 0;
    } else if !matches!(op, CONV_IF | FROM_INT | CONV_BF | FROM_BOOL) {
        c.a &= sl.mask();
    }
    Some(c)
}
