fn main() {
    bin_conv::main_entry()
}
