//! Calls into the library under test, dispatched to the part crates
//! (conv-sa/sb/ua/ub: single-layout operations; conv-p: layout pairs), which are
//! separate crates only so that they compile in parallel.

pub use conv_p::pairs::{FROM_PAIRS, LOSSY_PAIRS, PAIRS};
pub use conv_p::{pair_of, CMP_F32, CMP_F64, CMP_FF, CMP_FI, CMP_SAME, CONV_BF, CONV_FF, CONV_FI, CONV_IF, F32_TO_FIX, F64_TO_FIX, FIX_TO_F32, FIX_TO_F64, FROM_FF, LOSSY_FF, OP_NAMES};
use vcore::out::{drive, Outs};

pub fn exec(op: u16, lay_idx: u16, lay2: u16, a: u128, b: u128) -> Outs {
    drive(&mut |st, outs| match op {
        CONV_FF | CMP_FF | FROM_FF | LOSSY_FF => conv_p::run(st, op, lay2, a, b, outs),
        _ => {
            let k = lay2 as usize;
            match lay_idx {
                0..=123 => conv_sa::run(st, op, lay_idx, k, a, b, outs),
                124..=252 => conv_sb::run(st, op, lay_idx, k, a, b, outs),
                253..=376 => conv_ua::run(st, op, lay_idx, k, a, b, outs),
                _ => conv_ub::run(st, op, lay_idx, k, a, b, outs),
            }
        }
    })
}
