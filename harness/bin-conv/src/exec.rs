//! Calls into the library under test, dispatched to the part crates
//! (conv-sa/sb/ua/ub: single-layout operations; conv-p: layout pairs), which are
//! separate crates only so that they compile in parallel.

pub use conv_p::pairs::{BOOL_FROM, FIX_TO_INT_FROM, FIX_TO_INT_LOSSY, FLOAT_FROM, FROM_PAIRS, INT_FROM, LOSSY_PAIRS, PAIRS};
pub use conv_p::{pair_of, CMP_BF16, CMP_F16, CMP_F32, CMP_F64, CMP_FF, CMP_FI, CMP_SAME, CONV_BF, CONV_FF, CONV_FI, CONV_IF, F32_TO_FIX, F64_TO_FIX, FIX_TO_F32, FIX_TO_F64, FLOAT_FROM_FIX, FROM_BOOL, FROM_FF, FROM_INT, INT_FROM_FIX, INT_LOSSY_FIX, LOSSY_FF, OP_NAMES};
use vcore::out::{drive, Outs};

pub fn exec(op: u16, lay_idx: u16, lay2: u16, a: u128, b: u128) -> Outs {
    drive(&mut |st, outs| match op {
        CONV_FF | CMP_FF | FROM_FF | LOSSY_FF | FROM_INT | INT_FROM_FIX | INT_LOSSY_FIX | FROM_BOOL | FLOAT_FROM_FIX => conv_p::run(st, op, lay2, a, b, outs),
        _ => {
            let k = lay2 as usize;
            match lay_idx {
                0..=123 => conv_sa::run(st, op, lay_idx, k, a, b, outs),
                124..=252 => conv_sb::run(st, op, lay_idx, k, a, b, outs),
                253..=376 => conv_ua::run(st, op, lay_idx, k, a, b, outs),
                _ => conv_ub::run(st, op, lay_idx, k, a, b, outs),
            }
        }
    })
}
