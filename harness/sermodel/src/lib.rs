//! A self-describing serde data-model recorder (C10): what a `Serialize` impl *says* to a serializer, as a value tree,
//! and a deserializer that plays such a tree back to a `Deserialize` impl. Unlike a text format it shows the calls
//! themselves (struct / map / tuple / which integer), and it can answer `is_human_readable()` either way, which a
//! format-dependent representation would key on. No dependency on the library under test.

use serde::de::{self, DeserializeSeed, IntoDeserializer, MapAccess, SeqAccess, Visitor};
use serde::ser::{self, Serialize};
use std::fmt;

#[derive(Clone, Debug, PartialEq)]
pub enum Tok {
    /// any of the integer calls: (kind such as "i128", value reduced to i128 / u128 as two's complement of 128 bits)
    Int(&'static str, u128, bool),
    Struct(String, Vec<(String, Tok)>),
    Map(Vec<(Tok, Tok)>),
    Seq(Vec<Tok>),
    Tuple(Vec<Tok>),
    Newtype(String, Box<Tok>),
    Str(String),
    Bytes(Vec<u8>),
    Unit,
    Other(String),
}

impl Tok {
    /// canonical text used as the observable output
    pub fn show(&self) -> String {
        match self {
            Tok::Int(k, v, neg) => {
                if *neg {
                    format!("{}({})", k, *v as i128)
                } else {
                    format!("{}({})", k, v)
                }
            }
            Tok::Struct(n, fs) => format!("struct {}{{{}}}", n, fs.iter().map(|(k, v)| format!("{}:{}", k, v.show())).collect::<Vec<_>>().join(",")),
            Tok::Map(es) => format!("map{{{}}}", es.iter().map(|(k, v)| format!("{}:{}", k.show(), v.show())).collect::<Vec<_>>().join(",")),
            Tok::Seq(es) => format!("seq[{}]", es.iter().map(|v| v.show()).collect::<Vec<_>>().join(",")),
            Tok::Tuple(es) => format!("tuple({})", es.iter().map(|v| v.show()).collect::<Vec<_>>().join(",")),
            Tok::Newtype(n, v) => format!("newtype {}({})", n, v.show()),
            Tok::Str(s) => format!("str({:?})", s),
            Tok::Bytes(b) => format!("bytes({:?})", b),
            Tok::Unit => "unit".into(),
            Tok::Other(s) => format!("other({})", s),
        }
    }
    /// `Some(value as signed 128-bit)` when the tree is "one record with the single field `bits` holding an integer"
    /// (a struct or a map; the name of the struct and the integer call used are not constrained), which is the
    /// representation C10 names
    pub fn bits_record(&self) -> Option<(i128, bool)> {
        let (k, v) = match self {
            Tok::Struct(_, fs) if fs.len() == 1 => (fs[0].0.clone(), &fs[0].1),
            Tok::Map(es) if es.len() == 1 => match &es[0].0 {
                Tok::Str(s) => (s.clone(), &es[0].1),
                _ => return None,
            },
            _ => return None,
        };
        if k != "bits" {
            return None;
        }
        match v {
            Tok::Int(_, v, neg) => Some((*v as i128, *neg)),
            _ => None,
        }
    }
}

#[derive(Debug)]
pub struct Err_(pub String);
impl fmt::Display for Err_ {
    fn fmt(&self, f: &mut fmt::Formatter<'_>) -> fmt::Result {
        f.write_str(&self.0)
    }
}
impl std::error::Error for Err_ {}
impl ser::Error for Err_ {
    fn custom<T: fmt::Display>(m: T) -> Self {
        Err_(m.to_string())
    }
}
impl de::Error for Err_ {
    fn custom<T: fmt::Display>(m: T) -> Self {
        Err_(m.to_string())
    }
}

pub struct Rec {
    pub human: bool,
}
pub fn record<T: Serialize + ?Sized>(v: &T, human: bool) -> Result<Tok, Err_> {
    v.serialize(Rec { human })
}

pub struct Coll {
    human: bool,
    name: String,
    kind: u8, // 0 seq 1 tuple 2 struct 3 map
    items: Vec<Tok>,
    fields: Vec<(String, Tok)>,
    entries: Vec<(Tok, Tok)>,
    key: Option<Tok>,
}
impl Coll {
    fn new(human: bool, name: &str, kind: u8) -> Coll {
        Coll { human, name: name.into(), kind, items: vec![], fields: vec![], entries: vec![], key: None }
    }
    fn finish(self) -> Tok {
        match self.kind {
            0 => Tok::Seq(self.items),
            1 => Tok::Tuple(self.items),
            2 => Tok::Struct(self.name, self.fields),
            _ => Tok::Map(self.entries),
        }
    }
}
macro_rules! ints {
    ($($m:ident $t:ty, $k:expr, $neg:expr;)*) => { $(
        fn $m(self, v: $t) -> Result<Tok, Err_> { Ok(Tok::Int($k, (v as i128) as u128, $neg && (v as i128) < 0)) }
    )* };
}
impl ser::Serializer for Rec {
    type Ok = Tok;
    type Error = Err_;
    type SerializeSeq = Coll;
    type SerializeTuple = Coll;
    type SerializeTupleStruct = Coll;
    type SerializeTupleVariant = Coll;
    type SerializeMap = Coll;
    type SerializeStruct = Coll;
    type SerializeStructVariant = Coll;
    fn is_human_readable(&self) -> bool {
        self.human
    }
    ints! {
        serialize_i8 i8, "i8", true; serialize_i16 i16, "i16", true; serialize_i32 i32, "i32", true; serialize_i64 i64, "i64", true;
        serialize_u8 u8, "u8", false; serialize_u16 u16, "u16", false; serialize_u32 u32, "u32", false; serialize_u64 u64, "u64", false;
    }
    fn serialize_i128(self, v: i128) -> Result<Tok, Err_> {
        Ok(Tok::Int("i128", v as u128, v < 0))
    }
    fn serialize_u128(self, v: u128) -> Result<Tok, Err_> {
        Ok(Tok::Int("u128", v, false))
    }
    fn serialize_bool(self, v: bool) -> Result<Tok, Err_> {
        Ok(Tok::Other(format!("bool {}", v)))
    }
    fn serialize_f32(self, v: f32) -> Result<Tok, Err_> {
        Ok(Tok::Other(format!("f32 {}", v)))
    }
    fn serialize_f64(self, v: f64) -> Result<Tok, Err_> {
        Ok(Tok::Other(format!("f64 {}", v)))
    }
    fn serialize_char(self, v: char) -> Result<Tok, Err_> {
        Ok(Tok::Other(format!("char {}", v)))
    }
    fn serialize_str(self, v: &str) -> Result<Tok, Err_> {
        Ok(Tok::Str(v.into()))
    }
    fn serialize_bytes(self, v: &[u8]) -> Result<Tok, Err_> {
        Ok(Tok::Bytes(v.to_vec()))
    }
    fn serialize_none(self) -> Result<Tok, Err_> {
        Ok(Tok::Other("none".into()))
    }
    fn serialize_some<T: Serialize + ?Sized>(self, v: &T) -> Result<Tok, Err_> {
        Ok(Tok::Newtype("Some".into(), Box::new(v.serialize(Rec { human: self.human })?)))
    }
    fn serialize_unit(self) -> Result<Tok, Err_> {
        Ok(Tok::Unit)
    }
    fn serialize_unit_struct(self, n: &'static str) -> Result<Tok, Err_> {
        Ok(Tok::Other(format!("unit struct {}", n)))
    }
    fn serialize_unit_variant(self, n: &'static str, _i: u32, v: &'static str) -> Result<Tok, Err_> {
        Ok(Tok::Other(format!("unit variant {}::{}", n, v)))
    }
    fn serialize_newtype_struct<T: Serialize + ?Sized>(self, n: &'static str, v: &T) -> Result<Tok, Err_> {
        Ok(Tok::Newtype(n.into(), Box::new(v.serialize(Rec { human: self.human })?)))
    }
    fn serialize_newtype_variant<T: Serialize + ?Sized>(self, n: &'static str, _i: u32, var: &'static str, v: &T) -> Result<Tok, Err_> {
        Ok(Tok::Newtype(format!("{}::{}", n, var), Box::new(v.serialize(Rec { human: self.human })?)))
    }
    fn serialize_seq(self, _len: Option<usize>) -> Result<Coll, Err_> {
        Ok(Coll::new(self.human, "", 0))
    }
    fn serialize_tuple(self, _len: usize) -> Result<Coll, Err_> {
        Ok(Coll::new(self.human, "", 1))
    }
    fn serialize_tuple_struct(self, n: &'static str, _len: usize) -> Result<Coll, Err_> {
        Ok(Coll::new(self.human, n, 1))
    }
    fn serialize_tuple_variant(self, n: &'static str, _i: u32, _v: &'static str, _len: usize) -> Result<Coll, Err_> {
        Ok(Coll::new(self.human, n, 1))
    }
    fn serialize_map(self, _len: Option<usize>) -> Result<Coll, Err_> {
        Ok(Coll::new(self.human, "", 3))
    }
    fn serialize_struct(self, n: &'static str, _len: usize) -> Result<Coll, Err_> {
        Ok(Coll::new(self.human, n, 2))
    }
    fn serialize_struct_variant(self, n: &'static str, _i: u32, _v: &'static str, _len: usize) -> Result<Coll, Err_> {
        Ok(Coll::new(self.human, n, 2))
    }
}
impl ser::SerializeSeq for Coll {
    type Ok = Tok;
    type Error = Err_;
    fn serialize_element<T: Serialize + ?Sized>(&mut self, v: &T) -> Result<(), Err_> {
        self.items.push(v.serialize(Rec { human: self.human })?);
        Ok(())
    }
    fn end(self) -> Result<Tok, Err_> {
        Ok(self.finish())
    }
}
impl ser::SerializeTuple for Coll {
    type Ok = Tok;
    type Error = Err_;
    fn serialize_element<T: Serialize + ?Sized>(&mut self, v: &T) -> Result<(), Err_> {
        self.items.push(v.serialize(Rec { human: self.human })?);
        Ok(())
    }
    fn end(self) -> Result<Tok, Err_> {
        Ok(self.finish())
    }
}
impl ser::SerializeTupleStruct for Coll {
    type Ok = Tok;
    type Error = Err_;
    fn serialize_field<T: Serialize + ?Sized>(&mut self, v: &T) -> Result<(), Err_> {
        self.items.push(v.serialize(Rec { human: self.human })?);
        Ok(())
    }
    fn end(self) -> Result<Tok, Err_> {
        Ok(self.finish())
    }
}
impl ser::SerializeTupleVariant for Coll {
    type Ok = Tok;
    type Error = Err_;
    fn serialize_field<T: Serialize + ?Sized>(&mut self, v: &T) -> Result<(), Err_> {
        self.items.push(v.serialize(Rec { human: self.human })?);
        Ok(())
    }
    fn end(self) -> Result<Tok, Err_> {
        Ok(self.finish())
    }
}
impl ser::SerializeMap for Coll {
    type Ok = Tok;
    type Error = Err_;
    fn serialize_key<T: Serialize + ?Sized>(&mut self, k: &T) -> Result<(), Err_> {
        self.key = Some(k.serialize(Rec { human: self.human })?);
        Ok(())
    }
    fn serialize_value<T: Serialize + ?Sized>(&mut self, v: &T) -> Result<(), Err_> {
        let k = self.key.take().unwrap_or(Tok::Unit);
        self.entries.push((k, v.serialize(Rec { human: self.human })?));
        Ok(())
    }
    fn end(self) -> Result<Tok, Err_> {
        Ok(self.finish())
    }
}
impl ser::SerializeStruct for Coll {
    type Ok = Tok;
    type Error = Err_;
    fn serialize_field<T: Serialize + ?Sized>(&mut self, k: &'static str, v: &T) -> Result<(), Err_> {
        self.fields.push((k.into(), v.serialize(Rec { human: self.human })?));
        Ok(())
    }
    fn end(self) -> Result<Tok, Err_> {
        Ok(self.finish())
    }
}
impl ser::SerializeStructVariant for Coll {
    type Ok = Tok;
    type Error = Err_;
    fn serialize_field<T: Serialize + ?Sized>(&mut self, k: &'static str, v: &T) -> Result<(), Err_> {
        self.fields.push((k.into(), v.serialize(Rec { human: self.human })?));
        Ok(())
    }
    fn end(self) -> Result<Tok, Err_> {
        Ok(self.finish())
    }
}

// ------------------------------------------------------------------------------------------------------------------
// playing a tree back: a self-describing deserializer (every hint is answered from the tree, like serde_json / CBOR)

pub struct Play<'a> {
    pub tok: &'a Tok,
    pub human: bool,
}
pub fn play<'de, T: de::Deserialize<'de>>(tok: &'de Tok, human: bool) -> Result<T, Err_> {
    T::deserialize(Play { tok, human })
}
struct Items<'a> {
    it: std::slice::Iter<'a, Tok>,
    human: bool,
}
impl<'de> SeqAccess<'de> for Items<'de> {
    type Error = Err_;
    fn next_element_seed<S: DeserializeSeed<'de>>(&mut self, seed: S) -> Result<Option<S::Value>, Err_> {
        match self.it.next() {
            Some(t) => seed.deserialize(Play { tok: t, human: self.human }).map(Some),
            None => Ok(None),
        }
    }
}
struct Fields<'a> {
    fs: &'a [(String, Tok)],
    i: usize,
    human: bool,
}
impl<'de> MapAccess<'de> for Fields<'de> {
    type Error = Err_;
    fn next_key_seed<S: DeserializeSeed<'de>>(&mut self, seed: S) -> Result<Option<S::Value>, Err_> {
        if self.i >= self.fs.len() {
            return Ok(None);
        }
        let d: de::value::StrDeserializer<'de, Err_> = self.fs[self.i].0.as_str().into_deserializer();
        seed.deserialize(d).map(Some)
    }
    fn next_value_seed<S: DeserializeSeed<'de>>(&mut self, seed: S) -> Result<S::Value, Err_> {
        let t = &self.fs[self.i].1;
        self.i += 1;
        seed.deserialize(Play { tok: t, human: self.human })
    }
}
struct Entries<'a> {
    es: &'a [(Tok, Tok)],
    i: usize,
    human: bool,
}
impl<'de> MapAccess<'de> for Entries<'de> {
    type Error = Err_;
    fn next_key_seed<S: DeserializeSeed<'de>>(&mut self, seed: S) -> Result<Option<S::Value>, Err_> {
        if self.i >= self.es.len() {
            return Ok(None);
        }
        seed.deserialize(Play { tok: &self.es[self.i].0, human: self.human }).map(Some)
    }
    fn next_value_seed<S: DeserializeSeed<'de>>(&mut self, seed: S) -> Result<S::Value, Err_> {
        let t = &self.es[self.i].1;
        self.i += 1;
        seed.deserialize(Play { tok: t, human: self.human })
    }
}
impl<'de> de::Deserializer<'de> for Play<'de> {
    type Error = Err_;
    fn is_human_readable(&self) -> bool {
        self.human
    }
    fn deserialize_any<V: Visitor<'de>>(self, v: V) -> Result<V::Value, Err_> {
        match self.tok {
            Tok::Int(k, x, neg) => match *k {
                "i8" => v.visit_i8(*x as i128 as i8),
                "i16" => v.visit_i16(*x as i128 as i16),
                "i32" => v.visit_i32(*x as i128 as i32),
                "i64" => v.visit_i64(*x as i128 as i64),
                "i128" => v.visit_i128(*x as i128),
                "u8" => v.visit_u8(*x as u8),
                "u16" => v.visit_u16(*x as u16),
                "u32" => v.visit_u32(*x as u32),
                "u64" => v.visit_u64(*x as u64),
                _ => {
                    let _ = neg;
                    v.visit_u128(*x)
                }
            },
            Tok::Struct(_, fs) => v.visit_map(Fields { fs, i: 0, human: self.human }),
            Tok::Map(es) => v.visit_map(Entries { es, i: 0, human: self.human }),
            Tok::Seq(es) | Tok::Tuple(es) => v.visit_seq(Items { it: es.iter(), human: self.human }),
            Tok::Newtype(_, t) => v.visit_newtype_struct(Play { tok: t, human: self.human }),
            Tok::Str(s) => v.visit_borrowed_str(s),
            Tok::Bytes(b) => v.visit_borrowed_bytes(b),
            Tok::Unit => v.visit_unit(),
            Tok::Other(s) => Err(Err_(format!("cannot play {}", s))),
        }
    }
    serde::forward_to_deserialize_any! {
        bool i8 i16 i32 i64 i128 u8 u16 u32 u64 u128 f32 f64 char str string bytes byte_buf option unit unit_struct
        newtype_struct seq tuple tuple_struct map struct enum identifier ignored_any
    }
}
